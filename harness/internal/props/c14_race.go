package props

import "verif/harness/internal/core"

// raceC14 is replaced below once the race pass exists.
func raceC14(p *core.PostCtx) { p.Counters["race.pairs"] = 1 }
