#!/bin/bash
# tools/validate_mutant.sh <out_dir> <A|B> <seeded-id> [fullsuite]
# Confirms in a scratch worktree (outside /repo and /verif) that: the change applies and builds, the demo fails
# with it and passes without it, and (with "fullsuite") that the unedited existing suite passes with it.
# Writes /verif/seeded/<seeded-id>/{patch.diff,demo_test.go,validation.log}. Removes the worktree afterwards.
set -u
OUT="$1"; L="$2"; SID="$3"; FULL="${4:-}"
export GOFLAGS=-mod=mod GOPROXY=off GOSUMDB=off GOTOOLCHAIN=local
WT=/tmp/val_$SID
DST=/verif/seeded/$SID
mkdir -p "$DST"
LOG="$DST/validation.log"; : > "$LOG"
say(){ echo "$@" | tee -a "$LOG"; }
git -C /repo worktree remove --force "$WT" >/dev/null 2>&1
git -C /repo worktree add --detach "$WT" HEAD >/dev/null 2>&1 || { say "cannot create worktree"; exit 2; }
cleanup(){ git -C /repo worktree remove --force "$WT" >/dev/null 2>&1; rm -rf "$WT"; }
trap cleanup EXIT
cd "$WT"
DEMO="$OUT/${L}_demo_test.go"
PKG=$(sed -n '1s#^// place in: *##p' "$DEMO" | tr -d ' \r')
RUN=$(sed -n '2s#^// run: *##p' "$DEMO")
[ -n "$PKG" ] && [ -n "$RUN" ] || { say "demo header missing"; exit 2; }
say "mutant $SID from $OUT/$L.diff ; demo in $PKG ; run: $RUN"
git apply --check "$OUT/$L.diff" 2>>"$LOG" || { say "RESULT: patch does not apply"; exit 1; }
cp "$DEMO" "$PKG/zz_${SID}_demo_test.go"
# without the change: demo must pass
if eval "$RUN" >>"$LOG" 2>&1; then say "demo without change: PASS (expected)"; else say "RESULT: demo fails on the unchanged tree"; exit 1; fi
git apply "$OUT/$L.diff"
if ! go build ./... >>"$LOG" 2>&1; then say "RESULT: does not build"; exit 1; fi
if eval "$RUN" >>"$LOG" 2>&1; then say "RESULT: demo passes WITH the change (does not demonstrate)"; exit 1; else say "demo with change: FAIL (expected)"; fi
rm -f "$PKG/zz_${SID}_demo_test.go"
if [ "$FULL" = "fullsuite" ]; then
  if go test -vet=off -count=1 -timeout 25m ./... >>"$LOG" 2>&1; then say "existing suite with change: PASS"; else say "RESULT: existing suite FAILS with the change"; exit 1; fi
fi
cp "$OUT/$L.diff" "$DST/patch.diff"; cp "$DEMO" "$DST/demo_test.go"; cp "$OUT/$L.md" "$DST/agent_notes.md" 2>/dev/null
say "RESULT: confirmed"
exit 0
