package props

import (
	"bytes"
	"io"
	"math"

	enc "github.com/DataDog/sketches-go/ddsketch/encoding"

	"verif/harness/internal/core"
	"verif/harness/internal/rng"
	"verif/harness/internal/wire"
)

// C18: primitive codecs against the independent reference codec.
//
// Case layout (by index):
//   0..255      exhaustive sweep of all byte strings of length <=2 whose first byte is the case index
//               (plus, in case 0, the empty string) through every decoder;
//   256..      seeded batches: value round trips (2^k+-d, bit-length classes, extremes, random) and
//               random byte strings up to 12 bytes biased to continuation bytes.

func init() {
	core.Register(&core.Prop{
		ID:    "C18",
		Level: "exploration",
		Rule: "cases 0-255 enumerate every byte string of length <=2 (65,793 strings: complete) through all decoders; the other cases are seeded batches of 400 values each (2^k+-d for all k and d<=3, every bit-length class, extremes, random u64 also read as int64 and as float64 bit patterns incl. NaN/Inf/subnormals/negatives, integer-valued floats below 2^53) " +
			"and 400 random byte strings up to 12 bytes biased to continuation bytes, each also followed by arbitrary trailing bytes. The first case a worker process runs starts with a probe of one function family (size functions or codecs, in rotating order) before anything else of the package has run in that process. Oracle = independent reference codec written from the documentation: identical bytes, exact round trip ((v+1)-1 for varfloat), 1<=len<=9 == size function, framing, io.EOF on every strict prefix with the slice untouched, int32 range check, no panic, <=9 bytes consumed. " +
			"Race-detector pass: in a race-instrumented build, 4 processes x 8 goroutines encode and decode their own values into their own buffers with no synchronisation; every round trip is verified and any DATA RACE report is a violation (the functions must not keep shared mutable state between calls). Non-trivial = batch containing a 9-byte encoding and a length-class boundary value; distinct = hash of the batch's values.",
		Cases:     core.Scale(256+10000, 256+250000),
		Mandatory: []string{"oracle.roundtrips", "oracle.prefix_eof", "oracle.hostile_strings", "exhaustive.strings_len_le2", "encoding.len9", "oracle.varint32_rejects", "oracle.fresh_process_probes", "race.codec_calls", "oracle.spare_capacity_untouched"},
		Assumptions: []string{
			"the reference codec in /verif/harness/internal/wire is itself correct with respect to the format documentation",
		},
		Run:  runC18,
		Post: raceC18,
	})
}

func libDecodeAll(c *core.Ctx, s []byte) {
	// Compare every decoder with the reference on an arbitrary string; also checks
	// that nothing beyond the consumed bytes influences the result.
	c.Count("oracle.hostile_strings", 1)
	// uvarint
	{
		b := append([]byte{}, s...)
		p := b
		var v uint64
		var err error
		if c.Guard("DecodeUvarint64", func() { v, err = enc.DecodeUvarint64(&p) }) {
			return
		}
		rv, rn, rerr := wire.ReadUvarint(s)
		checkDecode(c, "DecodeUvarint64", s, b, p, err, rerr, rn, v == rv, v, rv)
	}
	{
		b := append([]byte{}, s...)
		p := b
		var v int64
		var err error
		if c.Guard("DecodeVarint64", func() { v, err = enc.DecodeVarint64(&p) }) {
			return
		}
		rv, rn, rerr := wire.ReadVarint(s)
		checkDecode(c, "DecodeVarint64", s, b, p, err, rerr, rn, v == rv, v, rv)
	}
	{
		b := append([]byte{}, s...)
		p := b
		var v int32
		var err error
		if c.Guard("DecodeVarint32", func() { v, err = enc.DecodeVarint32(&p) }) {
			return
		}
		rv, rn, rerr := wire.ReadVarint(s)
		if rerr == nil && (rv > math.MaxInt32 || rv < math.MinInt32) {
			c.Count("oracle.varint32_rejects", 1)
			if err == nil {
				c.Failf("DecodeVarint32.accepts_out_of_range", "DecodeVarint32(% x) returned %d, nil for the out-of-range value %d", s, v, rv)
			}
		} else {
			checkDecode(c, "DecodeVarint32", s, b, p, err, rerr, rn, int64(v) == rv, v, rv)
		}
	}
	{
		b := append([]byte{}, s...)
		p := b
		var v float64
		var err error
		if c.Guard("DecodeVarfloat64", func() { v, err = enc.DecodeVarfloat64(&p) }) {
			return
		}
		rv, rn, rerr := wire.ReadVarfloat(s)
		checkDecode(c, "DecodeVarfloat64", s, b, p, err, rerr, rn, math.Float64bits(v) == math.Float64bits(rv) || (v != v && rv != rv), v, rv)
	}
	{
		b := append([]byte{}, s...)
		p := b
		var v float64
		var err error
		if c.Guard("DecodeFloat64LE", func() { v, err = enc.DecodeFloat64LE(&p) }) {
			return
		}
		rv, rn, rerr := wire.ReadFloat64LE(s)
		checkDecode(c, "DecodeFloat64LE", s, b, p, err, rerr, rn, math.Float64bits(v) == math.Float64bits(rv), v, rv)
	}
	{
		p := append([]byte{}, s...)
		var f enc.Flag
		var err error
		if c.Guard("DecodeFlag", func() { f, err = enc.DecodeFlag(&p) }) {
			return
		}
		if len(s) == 0 {
			if err != io.EOF {
				c.Failf("DecodeFlag.empty", "DecodeFlag on empty input returned %v, want io.EOF", err)
			}
		} else {
			var out []byte
			enc.EncodeFlag(&out, f)
			if err != nil || len(p) != len(s)-1 || len(out) != 1 || out[0] != s[0] ||
				f.Type() != (enc.NewFlag(f.Type(), f.SubFlag())).Type() || enc.NewFlag(f.Type(), f.SubFlag()) != f {
				c.Failf("DecodeFlag.roundtrip", "flag byte 0x%02x: err=%v rest=%d re-encoded=% x", s[0], err, len(p), out)
			}
		}
	}
}

func checkDecode(c *core.Ctx, name string, s, orig, rest []byte, err, rerr error, rn int, same bool, v, rv interface{}) {
	if rerr != nil {
		// the reference says: input too short
		c.Count("oracle.prefix_eof", 1)
		if err != io.EOF {
			c.Failf(name+".short_input", "%s(% x): want io.EOF, got value %v err %v", name, s, v, err)
		} else if len(rest) != len(s) {
			c.Failf(name+".consumed_on_error", "%s(% x) returned io.EOF but advanced the slice by %d bytes", name, s, len(s)-len(rest))
		}
		return
	}
	if err != nil {
		c.Failf(name+".error_on_valid", "%s(% x): unexpected error %v (reference decodes %v from %d bytes)", name, s, err, rv, rn)
		return
	}
	consumed := len(s) - len(rest)
	if consumed != rn || consumed > 9 || consumed < 1 {
		c.Failf(name+".framing", "%s(% x) consumed %d bytes, reference %d", name, s, consumed, rn)
	}
	if !same {
		c.Failf(name+".value", "%s(% x) = %v, reference %v", name, s, v, rv)
	}
	if !bytes.Equal(orig, s) {
		c.Failf(name+".mutated_input", "%s modified its input bytes", name)
	}
}

// roundTrip checks one value through all applicable codecs, with trailing bytes and every strict prefix.
func roundTripU64(c *core.Ctx, r *rng.Rng, u uint64) (maxLen int) {
	trailer := make([]byte, r.Intn(4))
	for i := range trailer {
		trailer[i] = byte(r.U64())
	}
	prefix := make([]byte, r.Intn(3))
	for i := range prefix {
		prefix[i] = byte(r.U64())
	}
	// the buffer handed to an encoder: the prefix alone, or the prefix as a window on a larger array whose spare
	// capacity holds a caller's other bytes (0xA5): appending n bytes writes those n bytes and nothing else
	var arena []byte
	newBuf := func() []byte {
		arena = nil
		if r.Bool() {
			return append([]byte{}, prefix...)
		}
		arena = make([]byte, len(prefix)+24)
		for i := range arena {
			arena[i] = 0xA5
		}
		copy(arena, prefix)
		return arena[:len(prefix)]
	}
	check := func(name string, got []byte, want []byte, size int, decode func(p *[]byte) (ok bool, desc string)) {
		c.Count("oracle.roundtrips", 1)
		if arena != nil && len(got) <= len(arena) && len(got) > 0 && &got[0] == &arena[0] {
			c.Count("oracle.spare_capacity_untouched", 1)
			for i := len(got); i < len(arena); i++ {
				if arena[i] != 0xA5 {
					c.Failf(name+".writes_past_the_encoding", "%s appended %d bytes to a buffer with spare capacity and also changed byte %d of the array beyond them (0xa5 -> %#x)", name, len(got)-len(prefix), i, arena[i])
					return
				}
			}
		}
		if !bytes.HasPrefix(got, prefix) {
			c.Failf(name+".clobbers_prefix", "%s overwrote the existing buffer content", name)
			return
		}
		e := got[len(prefix):]
		if !bytes.Equal(e, want) {
			c.Failf(name+".bytes", "%s produced % x, reference % x", name, e, want)
			return
		}
		if len(e) < 1 || len(e) > 9 {
			c.Failf(name+".length", "%s produced %d bytes", name, len(e))
		}
		if len(e) == 9 {
			c.Count("encoding.len9", 1)
		}
		if len(e) > maxLen {
			maxLen = len(e)
		}
		if size >= 0 && size != len(e) {
			c.Failf(name+".size_function", "size function says %d, encoding has %d bytes (% x)", size, len(e), e)
		}
		// decode with arbitrary trailing bytes
		full := append(append([]byte{}, e...), trailer...)
		p := full
		ok, desc := decode(&p)
		if !ok {
			c.Failf(name+".roundtrip", "%s: %s", name, desc)
		} else if len(p) != len(trailer) || !bytes.Equal(p, trailer) {
			c.Failf(name+".framing", "%s: decoding % x followed by % x left %d bytes", name, e, trailer, len(p))
		}
		// every strict prefix must give io.EOF and leave the slice untouched
		for cut := 0; cut < len(e); cut++ {
			q := append([]byte{}, e[:cut]...)
			qq := q
			ok, desc := decode(&qq)
			c.Count("oracle.prefix_eof", 1)
			if ok || desc != "EOF" {
				c.Failf(name+".prefix_not_eof", "%s: strict prefix % x of % x did not yield io.EOF (%s)", name, e[:cut], e, desc)
			} else if len(qq) != cut {
				c.Failf(name+".prefix_consumed", "%s: strict prefix consumed bytes on error", name)
			}
		}
	}
	errDesc := func(err error) string {
		if err == io.EOF {
			return "EOF"
		}
		return "error " + err.Error()
	}
	// uvarint
	{
		b := newBuf()
		enc.EncodeUvarint64(&b, u)
		check("Uvarint64", b, wire.AppendUvarint(nil, u), enc.Uvarint64Size(u), func(p *[]byte) (bool, string) {
			v, err := enc.DecodeUvarint64(p)
			if err != nil {
				return false, errDesc(err)
			}
			return v == u, "decoded value differs"
		})
	}
	// varint
	{
		v64 := int64(u)
		b := newBuf()
		enc.EncodeVarint64(&b, v64)
		check("Varint64", b, wire.AppendVarint(nil, v64), enc.Varint64Size(v64), func(p *[]byte) (bool, string) {
			v, err := enc.DecodeVarint64(p)
			if err != nil {
				return false, errDesc(err)
			}
			return v == v64, "decoded value differs"
		})
		// 32-bit variant
		full := wire.AppendVarint(nil, v64)
		p := full
		v32, err := enc.DecodeVarint32(&p)
		if v64 > math.MaxInt32 || v64 < math.MinInt32 {
			c.Count("oracle.varint32_rejects", 1)
			if err == nil {
				c.Failf("DecodeVarint32.accepts_out_of_range", "DecodeVarint32 accepted %d as %d", v64, v32)
			}
		} else if err != nil || int64(v32) != v64 || len(p) != 0 {
			c.Failf("DecodeVarint32.value", "DecodeVarint32 of %d gave %d, %v", v64, v32, err)
		}
	}
	// float64 LE and varfloat on the bit pattern
	{
		f := math.Float64frombits(u)
		b := newBuf()
		enc.EncodeFloat64LE(&b, f)
		check("Float64LE", b, wire.AppendFloat64LE(nil, f), 8, func(p *[]byte) (bool, string) {
			v, err := enc.DecodeFloat64LE(p)
			if err != nil {
				return false, errDesc(err)
			}
			return math.Float64bits(v) == u, "decoded bits differ"
		})
		b = newBuf()
		enc.EncodeVarfloat64(&b, f)
		want := wire.VarfloatRoundTrip(f)
		check("Varfloat64", b, wire.AppendVarfloat(nil, f), enc.Varfloat64Size(f), func(p *[]byte) (bool, string) {
			v, err := enc.DecodeVarfloat64(p)
			if err != nil {
				return false, errDesc(err)
			}
			return math.Float64bits(v) == math.Float64bits(want) || (v != v && want != want), "decoded value is not (v+1)-1"
		})
	}
	return
}

func roundTripIntFloat(c *core.Ctx, f float64) {
	// integer-valued floats below 2^53 must survive the varfloat codec exactly
	var b []byte
	enc.EncodeVarfloat64(&b, f)
	if !bytes.Equal(b, wire.AppendVarfloat(nil, f)) {
		c.Failf("Varfloat64.bytes", "EncodeVarfloat64(%v) = % x, reference % x", f, b, wire.AppendVarfloat(nil, f))
	}
	if n := enc.Varfloat64Size(f); n != len(b) {
		c.Failf("Varfloat64.size_function", "Varfloat64Size(%v)=%d, encoding has %d bytes", f, n, len(b))
	}
	p := b
	v, err := enc.DecodeVarfloat64(&p)
	c.Count("oracle.roundtrips", 1)
	c.Count("oracle.exact_integers", 1)
	if err != nil || v != f || len(p) != 0 {
		c.Failf("Varfloat64.integer_exact", "varfloat round trip of the integer %v gave %v, %v", f, v, err)
	}
}

// c18ProcessStarted tells whether this process has already run a C18 case: the first one starts with a probe of
// one function family on a process in which no codec function has run yet (every worker is a fresh process, and
// so is a replay), so that nothing depends on which function happens to be called first.
var c18ProcessStarted bool

func freshProcessProbe(c *core.Ctx) {
	vals := []float64{0, 1, -1, 2, 3, 0.5, 1.5, 1e-9, 123456.789, 1 << 30, 1<<53 - 1, math.MaxFloat64, 5e-324, math.Inf(1), -0.25}
	ints := []int64{0, 1, -1, 63, 64, -64, -65, 1 << 20, -(1 << 40), math.MaxInt64, math.MinInt64}
	sizesF := func() {
		for _, f := range vals {
			if n, want := enc.Varfloat64Size(f), len(wire.AppendVarfloat(nil, f)); n != want {
				c.Failf("fresh_process.Varfloat64Size", "Varfloat64Size(%v)=%d as one of the first calls of a process, the encoding has %d bytes", f, n, want)
				return
			}
		}
	}
	sizesI := func() {
		for _, v := range ints {
			if n, want := enc.Varint64Size(v), len(wire.AppendVarint(nil, v)); n != want {
				c.Failf("fresh_process.Varint64Size", "Varint64Size(%d)=%d as one of the first calls of a process, the encoding has %d bytes", v, n, want)
				return
			}
		}
	}
	sizesU := func() {
		for _, v := range ints {
			if n, want := enc.Uvarint64Size(uint64(v)), len(wire.AppendUvarint(nil, uint64(v))); n != want {
				c.Failf("fresh_process.Uvarint64Size", "Uvarint64Size(%d)=%d as one of the first calls of a process, the encoding has %d bytes", uint64(v), n, want)
				return
			}
		}
	}
	codecF := func() {
		for _, f := range vals {
			var b []byte
			enc.EncodeVarfloat64(&b, f)
			if !bytes.Equal(b, wire.AppendVarfloat(nil, f)) {
				c.Failf("fresh_process.EncodeVarfloat64", "EncodeVarfloat64(%v) = % x as one of the first calls of a process, reference % x", f, b, wire.AppendVarfloat(nil, f))
				return
			}
			p := b
			if g, err := enc.DecodeVarfloat64(&p); err != nil || (math.Float64bits(g) != math.Float64bits((f+1)-1) && g == g) || len(p) != 0 {
				c.Failf("fresh_process.DecodeVarfloat64", "DecodeVarfloat64(% x) = %v, %v as one of the first calls of a process", b, g, err)
				return
			}
		}
	}
	codecI := func() {
		for _, v := range ints {
			var b []byte
			enc.EncodeVarint64(&b, v)
			p := b
			if g, err := enc.DecodeVarint64(&p); err != nil || g != v || !bytes.Equal(b, wire.AppendVarint(nil, v)) {
				c.Failf("fresh_process.Varint64", "EncodeVarint64(%d) = % x, decoded %d, %v as one of the first calls of a process", v, b, g, err)
				return
			}
		}
	}
	orders := [][]func(){
		{sizesF, sizesI, sizesU, codecF, codecI},
		{sizesI, sizesF, sizesU},
		{sizesU, sizesF, sizesI},
		{codecF, sizesF, sizesI, sizesU},
		{codecI, sizesF, sizesU, sizesI},
		{sizesF, codecF, sizesU},
	}
	c.Guard("fresh process probe", func() {
		for _, f := range orders[c.Index%len(orders)] {
			f()
		}
	})
	c.Count("oracle.fresh_process_probes", 1)
	c.Count("fresh_process.first_family_"+[]string{"Varfloat64Size", "Varint64Size", "Uvarint64Size", "Varfloat64 codec", "Varint64 codec", "Varfloat64Size"}[c.Index%len(orders)], 1)
}

func runC18(c *core.Ctx) {
	r := c.R
	if !c18ProcessStarted {
		c18ProcessStarted = true
		freshProcessProbe(c)
		if c.Failed() {
			return
		}
	}
	if c.Index < 256 {
		first := byte(c.Index)
		n := 0
		if c.Index == 0 {
			libDecodeAll(c, nil)
			n++
		}
		libDecodeAll(c, []byte{first})
		n++
		for b2 := 0; b2 < 256; b2++ {
			libDecodeAll(c, []byte{first, byte(b2)})
			n++
		}
		c.Count("exhaustive.strings_len_le2", n)
		c.SigI(c.Index)
		c.NonTrivial()
		if c.Index == 0x80 {
			c.Sample(map[string]interface{}{"exhaustive_block": "all strings of length <=2 starting with byte 0x80", "strings": n})
		}
		return
	}
	// value batch
	classBoundary := false
	len9 := false
	var sample []uint64
	for i := 0; i < 400 && !c.Failed(); i++ {
		var u uint64
		switch r.Pick(4, 2, 1, 3, 2) {
		case 0: // 2^k +- d
			k := r.Intn(64)
			d := uint64(r.Intn(4))
			u = uint64(1) << uint(k)
			if r.Bool() {
				u += d
			} else {
				u -= d
			}
			classBoundary = true
		case 1: // bit-length class: random value of exactly k bits
			k := r.Range(1, 64)
			u = r.U64() >> uint(64-k)
			u |= uint64(1) << uint(k-1)
		case 2: // extremes
			u = []uint64{0, 1, math.MaxUint64, math.MaxUint64 - 1, 1 << 63, 1<<63 - 1, math.Float64bits(math.NaN()), math.Float64bits(math.Inf(1)),
				math.Float64bits(math.Inf(-1)), math.Float64bits(-1), math.Float64bits(-0.5), 1 << 52, math.Float64bits(math.MaxFloat64), math.Float64bits(5e-324),
				uint64(math.MaxInt32), uint64(math.MaxInt32) + 1, uint64(1<<32 - 1), ^uint64(math.MaxInt32), ^uint64(math.MaxInt32) - 1}[r.Intn(19)]
		case 3:
			u = r.U64()
		default: // float-ish patterns: small integers and dyadics as float bits
			f := float64(r.Range(0, 1<<20))
			if r.Bool() {
				f = math.Ldexp(f, -r.Range(0, 30))
			}
			if r.P(0.2) {
				f = -f
			}
			u = math.Float64bits(f)
		}
		c.Sig(u)
		if len(sample) < 6 {
			sample = append(sample, u)
		}
		if roundTripU64(c, r, u) == 9 {
			len9 = true
		}
	}
	for i := 0; i < 60 && !c.Failed(); i++ {
		var f float64
		switch r.Intn(3) {
		case 0:
			f = float64(r.U64() >> uint(r.Range(11, 63)))
		case 1:
			f = math.Ldexp(1, r.Intn(53)) - float64(r.Intn(3))
		default:
			f = float64(r.Range(0, 4096))
		}
		if f < 0 {
			f = 0
		}
		roundTripIntFloat(c, f)
	}
	// hostile byte strings
	for i := 0; i < 400 && !c.Failed(); i++ {
		n := r.Range(0, 12)
		s := make([]byte, n)
		for j := range s {
			switch r.Pick(5, 2, 1, 1) {
			case 0:
				s[j] = byte(r.U64()) | 0x80 // continuation
			case 1:
				s[j] = byte(r.U64())
			case 2:
				s[j] = 0xff
			default:
				s[j] = 0x80
			}
		}
		if n > 0 && r.P(0.5) {
			s[n-1] &= 0x7f
		}
		c.SigB(s)
		libDecodeAll(c, s)
	}
	if classBoundary && len9 {
		c.NonTrivial()
		c.Sample(map[string]interface{}{"first_values_hex": hexes(sample)})
	}
}

func hexes(u []uint64) []string {
	out := make([]string, len(u))
	for i, v := range u {
		out[i] = "0x" + hex64(v)
	}
	return out
}

func hex64(v uint64) string {
	const d = "0123456789abcdef"
	b := make([]byte, 16)
	for i := 15; i >= 0; i-- {
		b[i] = d[v&15]
		v >>= 4
	}
	return string(b)
}
