// Package props registers one monitor-driven check per property.
package props

import "sort"

func sortStrings(s []string) { sort.Strings(s) }
