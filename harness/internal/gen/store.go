package gen

import (
	"fmt"

	"github.com/DataDog/sketches-go/ddsketch/store"

	"verif/harness/internal/rng"
)

const (
	SDense = iota
	SSparse
	SPaginated
	SCLow
	SCHigh
)

var StoreKindNames = []string{"dense", "sparse", "paginated", "collapsing_lowest", "collapsing_highest"}

// StoreSpec names a store kind (and bin limit for the collapsing ones).
type StoreSpec struct {
	Kind int
	N    int
}

func (s StoreSpec) String() string {
	if s.Kind >= SCLow {
		return fmt.Sprintf("%s(%d)", StoreKindNames[s.Kind], s.N)
	}
	return StoreKindNames[s.Kind]
}

func (s StoreSpec) KindName() string { return StoreKindNames[s.Kind] }

func (s StoreSpec) Collapsing() bool { return s.Kind >= SCLow }

func (s StoreSpec) New() store.Store {
	switch s.Kind {
	case SDense:
		return store.NewDenseStore()
	case SSparse:
		return store.NewSparseStore()
	case SPaginated:
		return store.NewBufferedPaginatedStore()
	case SCLow:
		return store.NewCollapsingLowestDenseStore(s.N)
	default:
		return store.NewCollapsingHighestDenseStore(s.N)
	}
}

func (s StoreSpec) Provider() store.Provider {
	return func() store.Store { return s.New() }
}

// SpanBudget is the largest index span the generator lets this store kind hold
// (so that correct code never allocates more than a few tens of MB).
func (s StoreSpec) SpanBudget() int {
	switch s.Kind {
	case SSparse:
		return 1 << 40
	case SPaginated:
		return 1 << 20
	case SDense:
		return 1 << 16
	default:
		return 1 << 40 // bounded by N
	}
}

var NGrid = []int{1, 2, 3, 4, 5, 8, 16, 31, 32, 33, 64, 100, 128, 1000, 2048}

func RandN(r *rng.Rng) int { return NGrid[r.Intn(len(NGrid))] }

// RandPlainStore draws one of the three non-collapsing kinds.
func RandPlainStore(r *rng.Rng) StoreSpec { return StoreSpec{Kind: r.Intn(3)} }

// RandAnyStore draws any of the five kinds.
func RandAnyStore(r *rng.Rng) StoreSpec {
	k := r.Intn(5)
	sp := StoreSpec{Kind: k}
	if k >= SCLow {
		sp.N = RandN(r)
	}
	return sp
}

// RandCollapsingStore draws a collapsing store.
func RandCollapsingStore(r *rng.Rng) StoreSpec {
	return StoreSpec{Kind: SCLow + r.Intn(2), N: RandN(r)}
}

// --- weights under the exactness budget ---

// Budget tracks that every weight is a multiple of 2^-G and that the running
// total stays below 2^Bits/2^G, so that every partial sum in any order is exactly
// representable as a float64.
type Budget struct {
	G     int     // weights are multiples of 2^-G
	Total float64 // upper bound on the total weight in play (sum over all objects)
}

const budgetBits = 51

func (b *Budget) fits(total float64, g int) bool {
	// total * 2^g < 2^budgetBits
	return total < ldexp(1, budgetBits-g)
}

func ldexp(f float64, e int) float64 {
	for e > 0 {
		f *= 2
		e--
	}
	for e < 0 {
		f /= 2
		e++
	}
	return f
}

// Weight draws a dyadic weight m*2^-e (e<=maxE) and charges it to the budget,
// times mult copies. Returns 1 when nothing else fits.
func (b *Budget) Weight(r *rng.Rng, maxE int, mult float64) float64 {
	for try := 0; try < 4; try++ {
		var w float64
		e := 0
		switch r.Pick(4, 3, 2, 1) {
		case 0:
			w = 1
		case 1:
			w = float64(r.Range(2, 9))
		case 2:
			e = r.Range(1, maxE)
			w = ldexp(float64(r.Range(1, 1<<uint(min(e+2, 12)))), -e)
		default:
			w = float64(r.Range(10, 1<<20))
		}
		g := b.G
		if e > g {
			g = e
		}
		if b.fits(b.Total+w*mult, g) {
			b.G = g
			b.Total += w * mult
			return w
		}
	}
	b.Total += mult
	return 1
}

// Charge accounts for weight that is duplicated (copy, merge, decode) into another live object.
func (b *Budget) Charge(w float64) bool {
	if !b.fits(b.Total+w, b.G) {
		return false
	}
	b.Total += w
	return true
}

// Factor draws a reweighting factor a*2^k with a in {1,3,5} that keeps the budget, or 0 if none fits.
func (b *Budget) Factor(r *rng.Rng) float64 {
	for try := 0; try < 6; try++ {
		a := []float64{1, 3, 5, 1, 1}[r.Intn(5)]
		k := r.Range(-4, 4)
		if a == 1 && k == 0 {
			if r.P(0.5) {
				return 1
			}
			continue
		}
		f := ldexp(a, k)
		g := b.G
		if k < 0 {
			g += -k
		}
		if g > 40 {
			continue
		}
		nt := b.Total * f
		if f < 1 {
			nt = b.Total // other live objects are not scaled: keep the bound
		}
		if b.fits(nt, g) {
			b.G = g
			b.Total = nt
			return f
		}
	}
	return 0
}

// NearOneFactor draws a factor 1 +- 2^-k (10 <= k <= 31) that keeps every product exact, or 0 if none fits:
// a factor that differs from 1 by less than any "close enough" tolerance but must still scale everything.
func (b *Budget) NearOneFactor(r *rng.Rng) float64 {
	for try := 0; try < 6; try++ {
		k := r.Range(10, 31)
		if b.G+k > 48 || !b.fits(b.Total*2, b.G+k) {
			continue
		}
		b.G += k
		b.Total *= 2
		if r.Bool() {
			return 1 + ldexp(1, -k)
		}
		return 1 - ldexp(1, -k)
	}
	return 0
}
