// vh is the verification harness binary: `vh run <ID> <tier>` (parent),
// `vh worker ...` (one batch), `vh replay <witness>`.
package main

import (
	"fmt"
	"os"
	"strconv"

	"verif/harness/internal/core"
	"verif/harness/internal/props"
)

func main() {
	if len(os.Args) < 2 {
		fmt.Fprintln(os.Stderr, "usage: vh run <ID> <quick|thorough> | vh replay <witness.json> | vh list")
		os.Exit(2)
	}
	switch os.Args[1] {
	case "run":
		if len(os.Args) != 4 {
			fmt.Fprintln(os.Stderr, "usage: vh run <ID> <quick|thorough>")
			os.Exit(2)
		}
		os.Exit(core.RunMain(os.Args[2], os.Args[3]))
	case "worker":
		if len(os.Args) != 9 {
			fmt.Fprintln(os.Stderr, "usage: vh worker <ID> <tier> <seed> <k> <n> <out> <cur>")
			os.Exit(2)
		}
		seed, _ := strconv.ParseUint(os.Args[4], 10, 64)
		k, _ := strconv.Atoi(os.Args[5])
		n, _ := strconv.Atoi(os.Args[6])
		os.Exit(core.WorkerMain(os.Args[2], os.Args[3], seed, k, n, os.Args[7], os.Args[8]))
	case "replay":
		if len(os.Args) != 3 {
			fmt.Fprintln(os.Stderr, "usage: vh replay <witness.json>")
			os.Exit(2)
		}
		os.Exit(core.ReplayMain(os.Args[2]))
	case "race":
		if len(os.Args) != 5 {
			fmt.Fprintln(os.Stderr, "usage: vh-race race <seed> <from> <to>")
			os.Exit(2)
		}
		seed, _ := strconv.ParseUint(os.Args[2], 10, 64)
		from, _ := strconv.Atoi(os.Args[3])
		to, _ := strconv.Atoi(os.Args[4])
		os.Exit(props.RaceMain(seed, from, to))
	case "race18":
		if len(os.Args) != 4 {
			fmt.Fprintln(os.Stderr, "usage: vh-race race18 <seed> <iterations>")
			os.Exit(2)
		}
		seed, _ := strconv.ParseUint(os.Args[2], 10, 64)
		iters, _ := strconv.Atoi(os.Args[3])
		os.Exit(props.Race18Main(seed, iters))
	case "list":
		for _, id := range core.IDs() {
			fmt.Println(id)
		}
	default:
		fmt.Fprintln(os.Stderr, "unknown command", os.Args[1])
		os.Exit(2)
	}
}
