// Package wire is an independent implementation of the DDSketch binary format,
// written only from the documentation in ddsketch/encoding/flag.go and the doc
// comments of ddsketch/encoding/encoding.go. It deliberately does not import the
// library's encoding package: it is the reference the library is compared with.
package wire

import (
	"errors"
	"fmt"
	"math"
	"math/bits"
)

var ErrShort = errors.New("wire: unexpected end of input")

// ---------- primitives ----------

// AppendUvarint: 7 bits at a time, least significant group first, high bit of each byte
// = continuation; at most 9 bytes, the 9th carries 8 bits and no continuation bit.
func AppendUvarint(b []byte, v uint64) []byte {
	for i := 0; i < 8; i++ {
		if v < 0x80 {
			return append(b, byte(v))
		}
		b = append(b, byte(v&0x7f)|0x80)
		v >>= 7
	}
	return append(b, byte(v))
}

// ReadUvarint returns the value and the number of bytes consumed.
func ReadUvarint(b []byte) (uint64, int, error) {
	var x uint64
	for i := 0; i < 9; i++ {
		if i >= len(b) {
			return 0, 0, ErrShort
		}
		n := b[i]
		if i == 8 {
			return x | uint64(n)<<56, 9, nil
		}
		if n < 0x80 {
			return x | uint64(n)<<(7*uint(i)), i + 1, nil
		}
		x |= uint64(n&0x7f) << (7 * uint(i))
	}
	panic("unreachable")
}

func ZigZag(v int64) uint64   { return uint64(v<<1) ^ uint64(v>>63) }
func UnZigZag(u uint64) int64 { return int64(u>>1) ^ -int64(u&1) }

func AppendVarint(b []byte, v int64) []byte { return AppendUvarint(b, ZigZag(v)) }

func ReadVarint(b []byte) (int64, int, error) {
	u, n, err := ReadUvarint(b)
	return UnZigZag(u), n, err
}

var oneBits = math.Float64bits(1)

// AppendVarfloat: the value is shifted as a float (+1), transmuted to an integer,
// shifted as an integer (-bits(1.0)), rotated left by 6, then emitted 7 bits at a
// time starting from the most significant bits while non-zero bits remain; at most
// 9 bytes, the 9th carrying 8 bits.
func AppendVarfloat(b []byte, v float64) []byte {
	x := bits.RotateLeft64(math.Float64bits(v+1)-oneBits, 6)
	for i := 0; i < 8; i++ {
		n := byte(x >> 57)
		x <<= 7
		if x == 0 {
			return append(b, n)
		}
		b = append(b, n|0x80)
	}
	return append(b, byte(x>>56))
}

func ReadVarfloat(b []byte) (float64, int, error) {
	var x uint64
	shift := uint(57)
	for i := 0; i < 9; i++ {
		if i >= len(b) {
			return 0, 0, ErrShort
		}
		n := b[i]
		if i == 8 {
			x |= uint64(n)
			return unvarfloat(x), 9, nil
		}
		if n < 0x80 {
			x |= uint64(n) << shift
			return unvarfloat(x), i + 1, nil
		}
		x |= uint64(n&0x7f) << shift
		shift -= 7
	}
	panic("unreachable")
}

func unvarfloat(x uint64) float64 {
	return math.Float64frombits(bits.RotateLeft64(x, -6)+oneBits) - 1
}

// VarfloatRoundTrip is what decoding the encoding of v yields: (v+1)-1.
func VarfloatRoundTrip(v float64) float64 { return (v + 1) - 1 }

func AppendFloat64LE(b []byte, v float64) []byte {
	u := math.Float64bits(v)
	for i := 0; i < 8; i++ {
		b = append(b, byte(u>>(8*uint(i))))
	}
	return b
}

func ReadFloat64LE(b []byte) (float64, int, error) {
	if len(b) < 8 {
		return 0, 0, ErrShort
	}
	var u uint64
	for i := 0; i < 8; i++ {
		u |= uint64(b[i]) << (8 * uint(i))
	}
	return math.Float64frombits(u), 8, nil
}

// ---------- flags ----------

const (
	TypeFeature  = 0b00
	TypeMapping  = 0b10
	TypePositive = 0b01
	TypeNegative = 0b11

	SubZeroCount = 1
	SubCount     = 0x28
	SubSum       = 0x21
	SubMin       = 0x22
	SubMax       = 0x23

	SubMapLog       = 0
	SubMapLinear    = 1
	SubMapQuadratic = 2
	SubMapCubic     = 3
	SubMapQuartic   = 4

	SubBinsDeltasCounts = 1
	SubBinsDeltas       = 2
	SubBinsContiguous   = 3
)

func Flag(typ, sub byte) byte { return typ | sub<<2 }

// DefinedFlag tells whether the documentation defines flag f (quadratic and quartic
// mappings are documented names but no decoder supports them; supported=false).
func DefinedFlag(f byte) (defined bool, supported bool) {
	typ, sub := f&3, f>>2
	switch typ {
	case TypeFeature:
		switch sub {
		case SubZeroCount, SubCount, SubSum, SubMin, SubMax:
			return true, true
		}
	case TypeMapping:
		switch sub {
		case SubMapLog, SubMapLinear, SubMapCubic:
			return true, true
		case SubMapQuadratic, SubMapQuartic:
			return true, false
		}
	default:
		switch sub {
		case SubBinsDeltasCounts, SubBinsDeltas, SubBinsContiguous:
			return true, true
		}
	}
	return false, false
}

// ---------- blocks ----------

type Bin struct {
	Index int64
	Count float64
}

// Block is one flagged block of a stream.
type Block struct {
	Flag       byte
	Start, End int // byte range in the stream, End exclusive

	// feature blocks
	Value float64
	// mapping blocks
	Gamma, Offset float64
	// store blocks
	N      uint64
	First  int64 // contiguous layout: first index
	Stride int64 // contiguous layout: stride
	Deltas []int64
	Counts []float64
	// positions (offsets in the stream) of each primitive inside the block, for fault injection
	Fields []Field
}

type Field struct {
	Kind       string // "flag","uvarint","varint","varfloat","float64"
	Start, End int
}

func (b *Block) Type() byte { return b.Flag & 3 }
func (b *Block) Sub() byte  { return b.Flag >> 2 }

func (b *Block) Name() string {
	switch b.Type() {
	case TypeFeature:
		switch b.Sub() {
		case SubZeroCount:
			return "zero_count"
		case SubCount:
			return "count"
		case SubSum:
			return "sum"
		case SubMin:
			return "min"
		case SubMax:
			return "max"
		}
		return "feature?"
	case TypeMapping:
		return "mapping"
	default:
		side := "positive"
		if b.Type() == TypeNegative {
			side = "negative"
		}
		switch b.Sub() {
		case SubBinsDeltasCounts:
			return side + ".index_deltas_and_counts"
		case SubBinsDeltas:
			return side + ".index_deltas"
		case SubBinsContiguous:
			return side + ".contiguous_counts"
		}
		return side + ".bins?"
	}
}

// Bins expands a store block into (index, count) pairs as the documentation defines them.
func (b *Block) Bins() []Bin {
	var out []Bin
	switch b.Sub() {
	case SubBinsDeltasCounts:
		idx := int64(0)
		for i := range b.Deltas {
			idx += b.Deltas[i]
			out = append(out, Bin{idx, b.Counts[i]})
		}
	case SubBinsDeltas:
		idx := int64(0)
		for i := range b.Deltas {
			idx += b.Deltas[i]
			out = append(out, Bin{idx, 1})
		}
	case SubBinsContiguous:
		idx := b.First
		for i := range b.Counts {
			out = append(out, Bin{idx, b.Counts[i]})
			idx += b.Stride
		}
	}
	return out
}

// ParseError reports where a stream stops being well-formed.
type ParseError struct {
	Pos int
	Msg string
}

func (e *ParseError) Error() string { return fmt.Sprintf("wire: %s at byte %d", e.Msg, e.Pos) }

// Parse splits a stream into documented blocks. On error the blocks parsed so far are returned.
func Parse(s []byte) ([]Block, error) {
	var blocks []Block
	pos := 0
	for pos < len(s) {
		blk := Block{Flag: s[pos], Start: pos}
		blk.Fields = append(blk.Fields, Field{"flag", pos, pos + 1})
		p := pos + 1
		def, sup := DefinedFlag(blk.Flag)
		if !def || !sup {
			return blocks, &ParseError{pos, fmt.Sprintf("undefined or unsupported flag 0x%02x", blk.Flag)}
		}
		rdU := func() (uint64, error) {
			v, n, err := ReadUvarint(s[p:])
			if err != nil {
				return 0, &ParseError{p, "truncated uvarint"}
			}
			blk.Fields = append(blk.Fields, Field{"uvarint", p, p + n})
			p += n
			return v, nil
		}
		rdI := func() (int64, error) {
			v, n, err := ReadVarint(s[p:])
			if err != nil {
				return 0, &ParseError{p, "truncated varint"}
			}
			blk.Fields = append(blk.Fields, Field{"varint", p, p + n})
			p += n
			return v, nil
		}
		rdVF := func() (float64, error) {
			v, n, err := ReadVarfloat(s[p:])
			if err != nil {
				return 0, &ParseError{p, "truncated varfloat"}
			}
			blk.Fields = append(blk.Fields, Field{"varfloat", p, p + n})
			p += n
			return v, nil
		}
		rdF := func() (float64, error) {
			v, n, err := ReadFloat64LE(s[p:])
			if err != nil {
				return 0, &ParseError{p, "truncated float64"}
			}
			blk.Fields = append(blk.Fields, Field{"float64", p, p + n})
			p += n
			return v, nil
		}
		var err error
		switch blk.Type() {
		case TypeFeature:
			switch blk.Sub() {
			case SubZeroCount, SubCount:
				blk.Value, err = rdVF()
			default:
				blk.Value, err = rdF()
			}
		case TypeMapping:
			if blk.Gamma, err = rdF(); err == nil {
				blk.Offset, err = rdF()
			}
		default:
			if blk.N, err = rdU(); err != nil {
				break
			}
			switch blk.Sub() {
			case SubBinsDeltasCounts:
				for i := uint64(0); i < blk.N && err == nil; i++ {
					var d int64
					var c float64
					if d, err = rdI(); err != nil {
						break
					}
					if c, err = rdVF(); err != nil {
						break
					}
					blk.Deltas = append(blk.Deltas, d)
					blk.Counts = append(blk.Counts, c)
				}
			case SubBinsDeltas:
				for i := uint64(0); i < blk.N && err == nil; i++ {
					var d int64
					if d, err = rdI(); err != nil {
						break
					}
					blk.Deltas = append(blk.Deltas, d)
				}
			case SubBinsContiguous:
				if blk.First, err = rdI(); err != nil {
					break
				}
				if blk.Stride, err = rdI(); err != nil {
					break
				}
				for i := uint64(0); i < blk.N && err == nil; i++ {
					var c float64
					if c, err = rdVF(); err != nil {
						break
					}
					blk.Counts = append(blk.Counts, c)
				}
			}
		}
		if err != nil {
			return blocks, err
		}
		blk.End = p
		blocks = append(blocks, blk)
		pos = p
	}
	return blocks, nil
}

// Emit serialises block descriptors (only Flag and the payload fields are read).
func Emit(blocks []Block) []byte {
	var s []byte
	for i := range blocks {
		s = EmitBlock(s, &blocks[i])
	}
	return s
}

func EmitBlock(s []byte, b *Block) []byte {
	s = append(s, b.Flag)
	switch b.Type() {
	case TypeFeature:
		switch b.Sub() {
		case SubZeroCount, SubCount:
			s = AppendVarfloat(s, b.Value)
		default:
			s = AppendFloat64LE(s, b.Value)
		}
	case TypeMapping:
		s = AppendFloat64LE(s, b.Gamma)
		s = AppendFloat64LE(s, b.Offset)
	default:
		switch b.Sub() {
		case SubBinsDeltasCounts:
			s = AppendUvarint(s, uint64(len(b.Deltas)))
			for i := range b.Deltas {
				s = AppendVarint(s, b.Deltas[i])
				s = AppendVarfloat(s, b.Counts[i])
			}
		case SubBinsDeltas:
			s = AppendUvarint(s, uint64(len(b.Deltas)))
			for i := range b.Deltas {
				s = AppendVarint(s, b.Deltas[i])
			}
		case SubBinsContiguous:
			s = AppendUvarint(s, uint64(len(b.Counts)))
			s = AppendVarint(s, b.First)
			s = AppendVarint(s, b.Stride)
			for i := range b.Counts {
				s = AppendVarfloat(s, b.Counts[i])
			}
		}
	}
	return s
}

// Content is what the documentation says a sequence of blocks represents.
type Content struct {
	HasMapping      bool
	MapSub          byte
	Gamma           float64
	Offset          float64
	MappingConflict bool // two mapping blocks that differ

	Zero float64
	Pos  map[int64]float64
	Neg  map[int64]float64

	HasCount, HasSum, HasMin, HasMax bool
	Count, Sum                       float64
	Min, Max                         float64
	StoreBlocks                      int
	Layouts                          map[string]int
}

// ContentOf accumulates blocks. Weights are added in stream order.
func ContentOf(blocks []Block) *Content {
	c := &Content{Pos: map[int64]float64{}, Neg: map[int64]float64{}, Min: math.Inf(1), Max: math.Inf(-1), Layouts: map[string]int{}}
	for i := range blocks {
		b := &blocks[i]
		switch b.Type() {
		case TypeFeature:
			switch b.Sub() {
			case SubZeroCount:
				c.Zero += b.Value
			case SubCount:
				c.HasCount = true
				c.Count += b.Value
			case SubSum:
				c.HasSum = true
				c.Sum += b.Value
			case SubMin:
				c.HasMin = true
				if b.Value < c.Min {
					c.Min = b.Value
				}
			case SubMax:
				c.HasMax = true
				if b.Value > c.Max {
					c.Max = b.Value
				}
			}
		case TypeMapping:
			if c.HasMapping && (c.MapSub != b.Sub() || c.Gamma != b.Gamma || c.Offset != b.Offset) {
				c.MappingConflict = true
			}
			c.HasMapping, c.MapSub, c.Gamma, c.Offset = true, b.Sub(), b.Gamma, b.Offset
		default:
			c.StoreBlocks++
			c.Layouts[b.Name()]++
			m := c.Pos
			if b.Type() == TypeNegative {
				m = c.Neg
			}
			for _, bin := range b.Bins() {
				if bin.Count != 0 {
					m[bin.Index] += bin.Count
				}
			}
		}
	}
	return c
}
