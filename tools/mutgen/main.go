// mutgen lists mechanical mutations (operator flips, constant nudges, deleted statements, negated conditions)
// of the library's non-test sources as JSON lines: {id,file,start,end,orig,repl,kind,line,func}.
// It only lists them; tools/mutscreen.py applies each one to a scratch copy of /repo and runs the checks on it.
package main

import (
	"encoding/json"
	"fmt"
	"go/ast"
	"go/parser"
	"go/token"
	"os"
	"path/filepath"
	"sort"
	"strconv"
	"strings"
)

type Mut struct {
	ID    string `json:"id"`
	File  string `json:"file"`
	Start int    `json:"start"`
	End   int    `json:"end"`
	Orig  string `json:"orig"`
	Repl  string `json:"repl"`
	Kind  string `json:"kind"`
	Line  int    `json:"line"`
	Func  string `json:"func"`
}

var flips = map[token.Token][]string{
	token.LSS: {"<="}, token.LEQ: {"<"}, token.GTR: {">="}, token.GEQ: {">"},
	token.EQL: {"!="}, token.NEQ: {"=="},
	token.ADD: {"-"}, token.SUB: {"+"}, token.MUL: {"/"}, token.QUO: {"*"},
	token.LAND: {"||"}, token.LOR: {"&&"},
	token.SHL: {">>"}, token.SHR: {"<<"},
}
var assignFlips = map[token.Token]string{
	token.ADD_ASSIGN: "-=", token.SUB_ASSIGN: "+=", token.MUL_ASSIGN: "/=", token.QUO_ASSIGN: "*=",
}

func main() {
	root := os.Args[1]
	dirs := []string{"ddsketch", "ddsketch/store", "ddsketch/mapping", "ddsketch/encoding", "ddsketch/stat", "dataset"}
	var muts []Mut
	for _, d := range dirs {
		files, _ := filepath.Glob(filepath.Join(root, d, "*.go"))
		sort.Strings(files)
		for _, f := range files {
			base := filepath.Base(f)
			if strings.HasSuffix(base, "_test.go") || strings.HasPrefix(base, "verif_") || base == "generator.go" || base == "doc.go" {
				continue
			}
			rel, _ := filepath.Rel(root, f)
			muts = append(muts, mutateFile(f, rel)...)
		}
	}
	enc := json.NewEncoder(os.Stdout)
	for i := range muts {
		muts[i].ID = fmt.Sprintf("M%04d", i)
		enc.Encode(muts[i])
	}
}

func mutateFile(path, rel string) []Mut {
	src, err := os.ReadFile(path)
	if err != nil {
		panic(err)
	}
	fset := token.NewFileSet()
	f, err := parser.ParseFile(fset, path, src, 0)
	if err != nil {
		panic(err)
	}
	var out []Mut
	off := func(p token.Pos) int { return fset.Position(p).Offset }
	add := func(fn string, s, e int, repl, kind string) {
		out = append(out, Mut{File: rel, Start: s, End: e, Orig: string(src[s:e]), Repl: repl, Kind: kind,
			Line: fset.Position(fset.File(f.Pos()).Pos(s)).Line, Func: fn})
	}
	for _, decl := range f.Decls {
		if gd, ok := decl.(*ast.GenDecl); ok && (gd.Tok == token.VAR || gd.Tok == token.CONST) {
			ast.Inspect(gd, func(n ast.Node) bool {
				if x, ok := n.(*ast.BasicLit); ok && x.Kind == token.INT {
					if v, err := strconv.ParseInt(x.Value, 0, 64); err == nil {
						s := off(x.Pos())
						add("(package level)", s, s+len(x.Value), strconv.FormatInt(v+1, 10), "const+1")
						if v > 0 {
							add("(package level)", s, s+len(x.Value), strconv.FormatInt(v-1, 10), "const-1")
						}
					}
				}
				return true
			})
			continue
		}
		fd, ok := decl.(*ast.FuncDecl)
		if !ok || fd.Body == nil {
			continue
		}
		name := fd.Name.Name
		if fd.Recv != nil && len(fd.Recv.List) > 0 {
			t := fd.Recv.List[0].Type
			if st, ok := t.(*ast.StarExpr); ok {
				t = st.X
			}
			if id, ok := t.(*ast.Ident); ok {
				name = id.Name + "." + name
			}
		}
		if name == "string" || strings.HasSuffix(name, ".String") || strings.HasSuffix(name, ".string") {
			continue
		}
		ast.Inspect(fd.Body, func(n ast.Node) bool {
			switch x := n.(type) {
			case *ast.CallExpr:
				// do not mutate inside panic(...)/errors.New(...)/fmt.* arguments
				if id, ok := x.Fun.(*ast.Ident); ok && id.Name == "panic" {
					return false
				}
				if se, ok := x.Fun.(*ast.SelectorExpr); ok {
					if id, ok := se.X.(*ast.Ident); ok && (id.Name == "errors" || id.Name == "fmt") {
						return false
					}
				}
			case *ast.BinaryExpr:
				if reps, ok := flips[x.Op]; ok {
					s := off(x.OpPos)
					for _, r := range reps {
						add(name, s, s+len(x.Op.String()), r, "binop")
					}
				}
			case *ast.BasicLit:
				if x.Kind == token.INT {
					if v, err := strconv.ParseInt(x.Value, 0, 64); err == nil {
						s := off(x.Pos())
						add(name, s, s+len(x.Value), strconv.FormatInt(v+1, 10), "const+1")
						if v > 0 {
							add(name, s, s+len(x.Value), strconv.FormatInt(v-1, 10), "const-1")
						}
					}
				}
			case *ast.IncDecStmt:
				s := off(x.TokPos)
				if x.Tok == token.INC {
					add(name, s, s+2, "--", "incdec")
				} else {
					add(name, s, s+2, "++", "incdec")
				}
			case *ast.AssignStmt:
				if r, ok := assignFlips[x.Tok]; ok {
					s := off(x.TokPos)
					add(name, s, s+2, r, "assignop")
					add(name, s, s+2, "=", "assignop=")
				}
			case *ast.UnaryExpr:
				if x.Op == token.SUB || x.Op == token.NOT {
					s := off(x.OpPos)
					add(name, s, s+1, "", "unary-drop")
				}
			case *ast.IfStmt:
				s, e := off(x.Cond.Pos()), off(x.Cond.End())
				add(name, s, e, "!("+string(src[s:e])+")", "negate-if")
			case *ast.ForStmt:
				if x.Cond != nil {
					// loop bound handled by binop flips
				}
			case *ast.BlockStmt:
				for _, st := range x.List {
					switch y := st.(type) {
					case *ast.ExprStmt:
						s, e := off(y.Pos()), off(y.End())
						add(name, s, e, "", "del-call")
					case *ast.AssignStmt:
						if y.Tok != token.DEFINE {
							s, e := off(y.Pos()), off(y.End())
							add(name, s, e, "", "del-assign")
						}
					case *ast.IncDecStmt:
						s, e := off(y.Pos()), off(y.End())
						add(name, s, e, "", "del-incdec")
					case *ast.ReturnStmt:
						// "return err" inside an if: drop the early return (error swallowed / guard removed)
						if len(y.Results) <= 1 {
							s, e := off(y.Pos()), off(y.End())
							_ = s
							_ = e
						}
					}
				}
			}
			return true
		})
	}
	return out
}
