package props

import (
	"math"

	"github.com/DataDog/sketches-go/ddsketch/store"

	"verif/harness/internal/core"
	"verif/harness/internal/gen"
	"verif/harness/internal/mon"
	"verif/harness/internal/rng"
	"verif/harness/internal/wire"
)

func init() {
	core.Register(&core.Prop{
		ID:    "C06",
		Level: "exploration",
		Rule: "case = sketches A, B (C) reached by seeded histories (either variant, any of the 5 store kinds, any mapping kind), encoded with omitIndexMapping in {true,false} into a caller buffer with an arbitrary prefix and spare capacity, decoded into every target store kind: " +
			"(1) prefix bytes untouched and the source's observation unchanged by Encode; (2) decoded mapping Equals the source's and the decoded observation is bitwise the source's (bin-for-bin through the fold model when the target is bounded); arbitrary float weights: per bin |decoded-v| <= ulp(v+1); (3) X.DecodeAndMergeWith(Encode(Y)) is identical to X.MergeWith(Y); (4) decoding Encode(A)||Encode(B)||... equals merging A, B, ...; (5) the independent parser recovers the model content. " +
			"Non-trivial = encoding with >=2 store blocks or a layout other than contiguous counts; distinct = hash of the histories.",
		Cases:     core.Scale(40000, 1000000),
		Mandatory: []string{"oracle.roundtrip_equalities", "oracle.append_only_checks", "oracle.source_unchanged", "oracle.decode_merge_equivalence", "oracle.concatenation_checks", "oracle.independent_parse", "oracle.lossy_weight_checks", "layout.positive.index_deltas", "layout.positive.index_deltas_and_counts", "layout.positive.contiguous_counts", "decode.omitted_mapping", "decode.into_bounded_target", "wide.bins_more_than_2^31_apart", "fine_weights.nine_byte_varfloats", "decode.exact_encoding_with_plain_decoder", "encode.of_unread_source", "decode.into_recycled_stores", "oracle.buffer_reuse_checks"},
		Assumptions: []string{
			"dyadic weights under the exactness budget survive the (v+1)-1 transform exactly",
		},
		Run: runC06,
	})
	core.Register(&core.Prop{
		ID:    "C07",
		Level: "exploration",
		Rule: "direction 1 (implementation -> documentation): encodings of sketches reached by seeded histories (both variants, all store and mapping kinds) are parsed by the independent codec written from flag.go's documentation; blocks must be well-formed and the content (mapping kind/gamma/offset bitwise, zero weight, bins, count/sum/min/max) must equal the model. " +
			"direction 2 (documentation -> implementation): streams generated from the documented grammar (blocks in any order, three bin layouts, N=0, negative/zero/large deltas and strides, repeated indexes, repeated zero-count/store/identical mapping blocks, statistics blocks interleaved) are decoded by DecodeDDSketch / DecodeDDSketchWithExactSummaryStatistics / DecodeAndMergeWith into every store kind; content must equal the sum the documentation assigns. " +
			"Also: the plain decoder accepts exact-summary encodings with identical bins. Non-trivial = stream with >=3 blocks and >=2 distinct layouts or a non-unit stride; distinct = hash of the stream.",
		Cases:     core.Scale(120000, 3000000),
		Mandatory: []string{"oracle.independent_parse", "oracle.independent_parse.exact", "oracle.grammar_streams_decoded", "decoder.into_reused_receiver", "oracle.plain_decoder_on_exact_encoding", "grammar.stride_nonunit", "grammar.stride_negative", "grammar.stride_zero", "grammar.repeated_index", "grammar.empty_block", "grammar.mapping_last", "grammar.mapping_repeated", "grammar.statistics_blocks", "grammar.deltas_beyond_int32", "grammar.all_zero_block", "decoder.exact", "decoder.merge_into_nonempty"},
		Assumptions: []string{
			"the reference codec in /verif/harness/internal/wire is itself faithful to the format documentation",
		},
		Run: runC07,
	})
}

func randExactFlag(r *rng.Rng) bool { return r.P(0.35) }

// ---------- C06 ----------

// runC06Wide: a very fine mapping (alpha 1e-7..1e-8, whose index range is clamped to int32) holding values
// near both ends of the indexable range in a sparse store: consecutive encoded bins are more than 2^31 apart.
func runC06Wide(c *core.Ctx) {
	r := c.R
	alpha := []float64{1e-7, 3e-8, 1e-8}[r.Intn(3)]
	m, err := gen.NewMap(r.Intn(3), alpha)
	if err != nil {
		c.Failf("constructor", "mapping constructor(%v): %v", alpha, err)
		return
	}
	exact := r.P(0.3)
	src := gen.StoreSpec{Kind: gen.SSparse}
	s := mon.NewSketch(exact, m.M, src)
	md := mon.NewSketchModel(m, src)
	n := r.Range(2, 8)
	for i := 0; i < n; i++ {
		var v float64
		switch i % 3 {
		case 0:
			v = m.Min * (1 + r.Float()*10)
		case 1:
			v = m.Max / (1 + r.Float()*10)
		default:
			v = r.LogUniform(1e-3, 1e3)
		}
		if r.P(0.3) {
			v = -v
		}
		w := float64(r.Range(1, 5))
		c.SigF(v)
		if err := s.I().AddWithCount(v, w); err != nil {
			c.Failf("AddWithCount.rejected", "AddWithCount(%v,%v): %v (min %v max %v)", v, w, err, m.Min, m.Max)
			return
		}
		md.Add(v, w)
	}
	span := md.Pos.Span()
	if sp := md.Neg.Span(); sp > span {
		span = sp
	}
	if span > math.MaxInt32 {
		c.Count("wide.bins_more_than_2^31_apart", 1)
	}
	var e []byte
	if c.Guard("Encode", func() { s.I().Encode(&e, false) }) {
		return
	}
	c.Logf("wide: %s, %d values, index span %d, %d bytes", m.Desc, n, span, len(e))
	for _, target := range []gen.StoreSpec{{Kind: gen.SSparse}, {Kind: gen.SCLow, N: gen.RandN(r)}, {Kind: gen.SCHigh, N: gen.RandN(r)}} {
		var d mon.Sketch
		var derr error
		if c.Guard("Decode", func() { d, derr = mon.Decode(exact, e, target, nil) }) {
			return
		}
		c.Count("oracle.roundtrip_equalities", 1)
		if derr != nil {
			c.Failf("decode.error", "decoding a valid encoding (bins %d indexes apart, %s) into %s returned %v", span, m.Desc, target, derr)
			return
		}
		tm := mon.NewSketchModel(m, target)
		tm.Merge(md)
		mon.CheckSketchBins(c, "wide:"+target.KindName(), d, tm)
		if c.Failed() {
			return
		}
	}
	// decode-merge into a non-empty sparse sketch == merge
	x1, x2 := mon.NewSketch(exact, m.M, src), mon.NewSketch(exact, m.M, src)
	for _, x := range []mon.Sketch{x1, x2} {
		x.I().Add(1.5)
	}
	var e1, e2 error
	c.Guard("DecodeAndMergeWith", func() { e1 = x1.I().DecodeAndMergeWith(e) })
	c.Guard("MergeWith", func() { e2 = x2.MergeWith(s) })
	if e1 != nil || e2 != nil {
		c.Failf("decode_merge.error", "DecodeAndMergeWith / MergeWith returned %v / %v", e1, e2)
		return
	}
	o1, o2 := mon.Observe(x1, nil), mon.Observe(x2, nil)
	o1.HasSum, o2.HasSum = false, false
	if dd := o2.Diff(o1); dd != "" {
		c.Failf("decode_merge.differs", "X.DecodeAndMergeWith(Encode(Y)) differs from X.MergeWith(Y) (merged vs decoded): %s", dd)
	}
	if span > math.MaxInt32 {
		c.NonTrivial()
	}
}

// runC06FineWeights: weights that are multiples of 2^-52 below one survive the (v+1)-1 transform exactly but need
// the longest varfloat encodings (9 bytes, last byte with its high bit set). Exact-summary encodings are also
// read by the plain decoder.
func runC06FineWeights(c *core.Ctx) {
	r := c.R
	m := gen.RandMap(r, true)
	exact := r.P(0.7)
	spec := gen.RandPlainStore(r)
	s := mon.NewSketch(exact, m.M, spec)
	md := mon.NewSketchModel(m, spec)
	total := 0.0
	for i, n := 0, r.Range(1, 3); i < n; i++ {
		w := math.Ldexp(float64(r.U64()>>12|1), -52) / 4 // odd multiple of 2^-54.. keep below 1/4 each
		w = math.Ldexp(math.Floor(math.Ldexp(w, 52)), -52)
		if w == 0 || total+w >= 1 {
			continue
		}
		v := m.ClampIn(r.LogUniform(0.01, 100))
		if r.P(0.3) {
			v = -v
		}
		if r.P(0.15) {
			v = 0
		}
		c.SigF(v)
		c.SigF(w)
		if err := s.I().AddWithCount(v, w); err != nil {
			c.Failf("AddWithCount.rejected", "AddWithCount(%v,%v): %v", v, w, err)
			return
		}
		md.Add(v, w)
		total += w
	}
	if total == 0 {
		return
	}
	omit := r.Bool()
	var e []byte
	if c.Guard("Encode", func() { s.I().Encode(&e, omit) }) {
		return
	}
	nine := false
	if blocks, err := wire.Parse(e); err == nil {
		for i := range blocks {
			for _, f := range blocks[i].Fields {
				if f.Kind == "varfloat" && f.End-f.Start == 9 {
					nine = true
				}
			}
		}
	}
	if nine {
		c.Count("fine_weights.nine_byte_varfloats", 1)
	}
	c.Logf("fine weights: exact=%v %s store %s total %v, %d bytes", exact, m.Desc, spec, total, len(e))
	for _, dec := range []bool{false, true} {
		if dec && !exact {
			continue
		}
		for tk := 0; tk < 3; tk++ {
			target := gen.StoreSpec{Kind: tk}
			var d mon.Sketch
			var derr error
			if c.Guard("Decode", func() { d, derr = mon.Decode(dec, e, target, m.M) }) {
				return
			}
			c.Count("oracle.roundtrip_equalities", 1)
			if !dec && exact {
				c.Count("decode.exact_encoding_with_plain_decoder", 1)
			}
			if derr != nil {
				c.Failf("decode.error", "decoding (exact decoder=%v) a valid encoding of a sketch (exact=%v) whose weights are multiples of 2^-52 returned %v", dec, exact, derr)
				return
			}
			tm := mon.NewSketchModel(m, target)
			tm.Merge(md)
			mon.CheckSketchBins(c, "fine:"+target.KindName(), d, tm)
			if c.Failed() {
				return
			}
		}
	}
	if nine {
		c.NonTrivial()
	}
}

func runC06(c *core.Ctx) {
	if c.Index%40 == 39 {
		runC06Wide(c)
		return
	}
	if c.Index%40 == 19 {
		runC06FineWeights(c)
		return
	}
	r := c.R
	m := gen.RandMap(r, true)
	specA := gen.StoreSpec{Kind: c.Index % 5}
	if specA.Collapsing() {
		specA.N = gen.RandN(r)
	}
	exact := randExactFlag(r)
	c.Logf("exact=%v mapping %s, source A store %s", exact, m.Desc, specA)
	c.SigS(m.Desc)
	A := buildSource(c, r, "A", exact, m, specA, 50)
	if A == nil {
		return
	}
	if c.Index%10 == 9 {
		runC06Lossy(c, r, m, specA, exact)
		return
	}
	omit := r.Bool()
	// half of the sources are encoded without having answered any query since their history (queries sort and
	// compact what the stores hold); the other half is observed before and after
	unread := r.Bool()
	var before *mon.Obs
	if !unread {
		before = mon.Observe(A.s, nil)
	} else {
		c.Count("encode.of_unread_source", 1)
	}
	e, ok := encodeAppending(c, r, A.s, omit)
	if !ok {
		return
	}
	if !unread {
		c.Count("oracle.source_unchanged", 1)
		if d := before.Diff(mon.Observe(A.s, nil)); d != "" {
			c.Failf("encode_changed_source", "Encode changed the sketch: %s", d)
			return
		}
	}
	blocks, ok := checkWireContent(c, e, A, omit)
	if !ok {
		return
	}
	nontrivial := false
	ct := wire.ContentOf(blocks)
	if ct.StoreBlocks >= 2 || ct.Layouts["positive.index_deltas"]+ct.Layouts["negative.index_deltas"]+ct.Layouts["positive.index_deltas_and_counts"]+ct.Layouts["negative.index_deltas_and_counts"] > 0 {
		nontrivial = true
	}
	// (2) decode into every target kind
	for tk := 0; tk < 5; tk++ {
		target := gen.StoreSpec{Kind: tk}
		if target.Collapsing() {
			target.N = gen.RandN(r)
			if r.Bool() && A.spec.Collapsing() {
				target.N = A.spec.N
			}
			c.Count("decode.into_bounded_target", 1)
		}
		supplied := A.m.M
		if !omit && r.Bool() {
			supplied = nil
		}
		if omit {
			c.Count("decode.omitted_mapping", 1)
		}
		var d mon.Sketch
		var err error
		if c.Guard("Decode", func() { d, err = mon.Decode(exact, e, target, supplied) }) {
			return
		}
		if err != nil {
			c.Failf("decode.error", "decoding a valid encoding (omitMapping=%v, supplied=%v) into %s returned %v", omit, supplied != nil, target, err)
			return
		}
		c.Count("oracle.roundtrip_equalities", 1)
		c.Count("roundtrip."+A.spec.KindName()+"->"+target.KindName(), 1)
		if !d.Mapping().Equals(A.m.M) || !A.m.M.Equals(d.Mapping()) {
			c.Failf("decode.mapping", "decoded mapping is not Equals the source's %s", A.m.Desc)
			return
		}
		// bin for bin through the model of the target
		tm := mon.NewSketchModel(A.m, target)
		tm.Merge(A.mdl)
		mon.CheckSketchBins(c, "decoded:"+target.KindName(), d, tm)
		if c.Failed() {
			return
		}
		// same answers to every query when the target does not fold more than the source did
		if !target.Collapsing() || (target == A.spec) {
			got := mon.Observe(d, nil)
			want := mon.Observe(A.s, nil)
			if dd := want.Diff(got); dd != "" {
				c.Failf("decode.observation", "sketch decoded into %s differs from the source in %s (source vs decoded): %s", target, A.spec, dd)
				return
			}
		}
	}

	// (3) DecodeAndMergeWith(Encode(Y)) == MergeWith(Y), X built twice from the same history
	specX := gen.RandAnyStore(r)
	rx := r.Fork()
	seedX := rx.U64()
	// X is built twice from the same seed and the same budget state, so that X1 and X2 are identical
	bud := caseBudget(c)
	before3 := *bud
	X1 := buildSource(c, rng.New(seedX), "X1", exact, m, specX, 30)
	after3 := *bud
	*bud = before3
	X2 := buildSource(c, rng.New(seedX), "X2", exact, m, specX, 30)
	*bud = after3
	if X1 != nil {
		bud.Charge(X1.mdl.Total()) // two live copies
	}
	if X1 == nil || X2 == nil {
		return
	}
	{
		omit3 := r.Bool()
		var eb []byte
		c.Guard("Encode", func() { A.s.I().Encode(&eb, omit3) })
		// receivers that have been queried since their last addition (their buffers are sorted, caches warm)
		if r.Bool() {
			mon.Observe(X1.s, nil)
			mon.Observe(X2.s, nil)
			c.Count("decode_merge.receiver_queried_first", 1)
		}
		var e1, e2 error
		c.Guard("DecodeAndMergeWith", func() { e1 = X1.s.I().DecodeAndMergeWith(eb) })
		c.Guard("MergeWith", func() { e2 = X2.s.MergeWith(A.s) })
		if c.Failed() {
			return
		}
		if e1 != nil || e2 != nil {
			c.Failf("decode_merge.error", "DecodeAndMergeWith / MergeWith of sketches with equal mappings returned %v / %v", e1, e2)
			return
		}
		c.Count("oracle.decode_merge_equivalence", 1)
		c.Count("decode_merge."+X1.spec.KindName()+"<-"+A.spec.KindName(), 1)
		o1, o2 := mon.Observe(X1.s, nil), mon.Observe(X2.s, nil)
		// the exact sum is accumulated differently on the two paths (bounded separately in C10)
		o1.HasSum, o2.HasSum = false, false
		if dd := o2.Diff(o1); dd != "" {
			c.Failf("decode_merge.differs", "X.DecodeAndMergeWith(Encode(Y)) differs from X.MergeWith(Y) (merged vs decoded) with X in %s, Y in %s: %s", X1.spec, A.spec, dd)
			return
		}
		X1.mdl.Merge(A.mdl)
		mon.CheckSketchBins(c, "decode_merge", X1.s, X1.mdl)
	}

	// (4) concatenation: decoding Encode(A)||Encode(B)||... equals merging A, B, ...
	{
		k := r.Range(2, 4)
		parts := []*skState{A}
		for i := 1; i < k; i++ {
			p := buildSource(c, r, "P"+itoa(i), exact, m, gen.RandAnyStore(r), 25)
			if p == nil {
				return
			}
			parts = append(parts, p)
		}
		var stream []byte
		anyMapping := false
		for i, p := range parts {
			o := r.Bool()
			if i == len(parts)-1 && !anyMapping && r.Bool() {
				o = false
			}
			if !o {
				anyMapping = true
			}
			c.Guard("Encode", func() { p.s.I().Encode(&stream, o) })
		}
		target := gen.RandAnyStore(r)
		var supplied = m.M
		if anyMapping && r.Bool() {
			supplied = nil
		}
		var d mon.Sketch
		var err error
		if r.P(0.4) {
			// stores recycled as the documentation of DecodeDDSketch suggests: an earlier decode of the same
			// stream, queried, its stores cleared and handed out again by the provider
			rc := &mon.Recycler{Spec: target}
			earlier := stream
			if r.Bool() {
				// ... or of the same sketches with every value moved a few bins away: as many bins, other extremes
				shift := math.Exp(float64(r.Range(3, 40)*(1-2*r.Intn(2))) * m.LnG)
				var es []byte
				okShift := true
				c.Guard("Encode (shifted earlier life)", func() {
					for i, p := range parts {
						q := mon.NewSketch(exact, m.M, p.spec)
						for _, it := range p.mdl.Items {
							v := it.V * shift
							if a := math.Abs(v); a != 0 && (a < m.Min*4 || a > m.Max/4) {
								okShift = false
								return
							}
							if it.W > 0 {
								q.I().AddWithCount(v, it.W)
							}
						}
						q.I().Encode(&es, i > 0)
					}
				})
				if okShift && !c.Failed() && len(es) > 0 && !target.Collapsing() && target.Kind != gen.SDense {
					earlier = es
					c.Count("decode.into_recycled_stores.other_extremes_before", 1)
				}
			}
			if c.Guard("Decode (earlier life)", func() {
				d0, e0 := mon.DecodeWith(exact, earlier, rc.Provider(), supplied)
				if e0 == nil {
					if r.P(0.8) {
						mon.Observe(d0, nil)
					}
					if r.P(0.3) {
						d0.I().Reweight(2)
					}
				}
				rc.Recycle()
			}) {
				return
			}
			c.Count("decode.into_recycled_stores", 1)
			if c.Guard("Decode", func() { d, err = mon.DecodeWith(exact, stream, rc.Provider(), supplied) }) {
				return
			}
		} else if c.Guard("Decode", func() { d, err = mon.Decode(exact, stream, target, supplied) }) {
			return
		}
		if err != nil {
			c.Failf("concat.error", "decoding the concatenation of %d valid encodings returned %v", k, err)
			return
		}
		merged := mon.NewSketch(exact, m.M, target)
		tm := mon.NewSketchModel(m, target)
		for _, p := range parts {
			var e error
			c.Guard("MergeWith", func() { e = merged.MergeWith(p.s) })
			if e != nil {
				c.Failf("concat.merge_error", "%v", e)
				return
			}
			tm.Merge(p.mdl)
		}
		if c.Failed() {
			return
		}
		c.Count("oracle.concatenation_checks", 1)
		mon.CheckSketchBins(c, "concatenation", d, tm)
		o1, o2 := mon.Observe(d, nil), mon.Observe(merged, nil)
		o1.HasSum, o2.HasSum = false, false
		if dd := o2.Diff(o1); dd != "" {
			c.Failf("concat.differs", "decoding a concatenation of %d encodings differs from merging the sketches (merged vs decoded) into %s: %s", k, target, dd)
			return
		}
	}
	// (6) the caller's buffer stays the caller's: A is encoded into a nil (or empty, capacity-less) buffer, the
	// caller then reuses that buffer for something else, and A encoded again gives the same bytes as the first time
	if !c.Failed() {
		var first, again []byte
		if c.Guard("Encode (buffer reuse)", func() {
			var b1 []byte
			if r.Bool() {
				b1 = []byte{}
			}
			A.s.I().Encode(&b1, false)
			first = append([]byte{}, b1...)
			b1 = b1[:0]
			if r.Bool() {
				for i := 0; i < cap(b1) && i < 64; i++ {
					b1 = append(b1, 0xEE)
				}
			} else {
				other := mon.NewSketch(exact, m.M, gen.RandPlainStore(r))
				other.I().AddWithCount(0, 3)
				other.I().Encode(&b1, false)
			}
			again = make([]byte, 0, r.Intn(2)*64)
			A.s.I().Encode(&again, false)
		}) {
			return
		}
		c.Count("oracle.buffer_reuse_checks", 1)
		// (the bytes themselves may differ: the sparse store writes its bins in map order) the second encoding
		// must still be one of this sketch: decodable without a supplied mapping, same mapping, same content
		sp := gen.StoreSpec{Kind: gen.SSparse}
		d, derr := mon.Decode(exact, again, sp, nil)
		if derr != nil {
			c.Failf("encode.depends_on_caller_buffer", "after the caller reused the buffer of an earlier encoding, the sketch encodes to %d bytes (%d the first time) that decode with %v: % x", len(again), len(first), derr, truncBytes(again, 60))
			return
		}
		if !d.Mapping().Equals(m.M) {
			c.Failf("encode.depends_on_caller_buffer", "after the caller reused the buffer of an earlier encoding, the sketch encodes another mapping")
			return
		}
		tm := mon.NewSketchModel(m, sp)
		tm.Merge(A.mdl)
		mon.CheckSketchBinsOnly(c, "encoded_again_after_buffer_reuse", d, tm)
		if c.Failed() {
			return
		}
	}
	if nontrivial {
		c.NonTrivial()
		c.Sample(map[string]interface{}{"exact": exact, "mapping": m.Desc, "source_store": A.spec.String(), "encoding_bytes": len(e), "blocks": len(blocks), "layouts": ct.Layouts, "omit_mapping": omit})
	}
}

// runC06Lossy: arbitrary float weights; per bin |decoded - v| <= ulp(v+1), nothing else asserted.
func runC06Lossy(c *core.Ctx, r *rng.Rng, m *gen.Map, spec gen.StoreSpec, exact bool) {
	if spec.Collapsing() {
		spec = gen.RandPlainStore(r)
	}
	s := mon.NewSketch(false, m.M, spec)
	vs := genValues(c, r, m, gen.StoreSpec{Kind: gen.SDense}, r.Range(1, 40), "mixed+zeros", 20)
	for _, v := range vs.vals {
		w := r.LogUniform(1e-6, 1e9)
		if r.P(0.2) {
			w = r.Float()
		}
		if w == 1 {
			w = 1.5
		}
		c.SigF(v)
		c.SigF(w)
		if err := s.P.AddWithCount(v, w); err != nil {
			c.Failf("AddWithCount.rejected", "AddWithCount(%v,%v): %v", v, w, err)
			return
		}
	}
	var e []byte
	c.Guard("Encode", func() { s.P.Encode(&e, false) })
	target := gen.RandPlainStore(r)
	d, err := mon.Decode(false, e, target, nil)
	if err != nil {
		c.Failf("decode.error", "decoding a valid encoding returned %v", err)
		return
	}
	cmp := func(side string, a, b []mon.KV) {
		if len(a) != len(b) {
			c.Failf("lossy.bins", "%s side: %d bins decoded, %d in the source", side, len(b), len(a))
			return
		}
		for i := range a {
			c.Count("oracle.lossy_weight_checks", 1)
			ulp := math.Nextafter(a[i].W+1, math.Inf(1)) - (a[i].W + 1)
			if a[i].K != b[i].K || math.Abs(a[i].W-b[i].W) > ulp {
				c.Failf("lossy.weight", "%s bin %d weight %v decoded as bin %d weight %v (allowed ulp(v+1)=%g)", side, a[i].K, a[i].W, b[i].K, b[i].W, ulp)
				return
			}
		}
	}
	pa, _, _ := mon.ForEachBins(s.P.GetPositiveValueStore())
	pb, _, _ := mon.ForEachBins(d.P.GetPositiveValueStore())
	na, _, _ := mon.ForEachBins(s.P.GetNegativeValueStore())
	nb, _, _ := mon.ForEachBins(d.P.GetNegativeValueStore())
	cmp("positive", pa, pb)
	cmp("negative", na, nb)
	z1, z2 := s.P.GetZeroCount(), d.P.GetZeroCount()
	if math.Abs(z1-z2) > math.Nextafter(z1+1, math.Inf(1))-(z1+1) {
		c.Failf("lossy.zero", "zero weight %v decoded as %v", z1, z2)
	}
	c.NonTrivial()
}

// ---------- C07 ----------

func runC07(c *core.Ctx) {
	if c.Index%8 == 6 {
		runC07ArbitraryWeights(c)
		return
	}
	if c.Index%2 == 0 {
		runC07Impl2Doc(c)
	} else {
		runC07Doc2Impl(c)
	}
}

func runC07Impl2Doc(c *core.Ctx) {
	r := c.R
	m := gen.RandMap(r, true)
	spec := gen.RandAnyStore(r)
	exact := c.Index%4 == 0
	c.Logf("implementation -> documentation: exact=%v mapping %s store %s", exact, m.Desc, spec)
	c.SigS(m.Desc)
	c.SigS(spec.String())
	A := buildSource(c, r, "A", exact, m, spec, 60)
	if A == nil {
		return
	}
	omit := r.P(0.3)
	var e []byte
	if c.Guard("Encode", func() { A.s.I().Encode(&e, omit) }) {
		return
	}
	c.SigB(e)
	blocks, ok := checkWireContent(c, e, A, omit)
	if !ok {
		return
	}
	if exact {
		// the plain decoder must accept the encoding of a sketch with exact statistics and ignore them
		target := gen.RandAnyStore(r)
		var d mon.Sketch
		var err error
		if c.Guard("DecodeDDSketch", func() { d, err = mon.Decode(false, e, target, A.m.M) }) {
			return
		}
		c.Count("oracle.plain_decoder_on_exact_encoding", 1)
		if err != nil {
			c.Failf("plain_decoder_rejects_exact_encoding", "DecodeDDSketch on the encoding of a sketch with exact summary statistics returned %v", err)
			return
		}
		tm := mon.NewSketchModel(A.m, target)
		tm.Merge(A.mdl)
		mon.CheckSketchBins(c, "plain_from_exact", d, tm)
	}
	// the buffer of that first encoding (handed over nil) is the caller's: it is overwritten, and the sketch
	// encoded once more is still a documented stream with the same content
	if !c.Failed() && r.Bool() {
		for i := range e[:cap(e)] {
			e[:cap(e)][i] = 0xEE
		}
		var e2 []byte
		if c.Guard("Encode (after the first buffer was overwritten)", func() { A.s.I().Encode(&e2, omit) }) {
			return
		}
		c.Count("oracle.encoded_again_after_buffer_overwritten", 1)
		if _, ok := checkWireContent(c, e2, A, omit); !ok {
			return
		}
	}
	ct := wire.ContentOf(blocks)
	if len(blocks) >= 3 && len(ct.Layouts) >= 2 {
		c.NonTrivial()
		c.Sample(map[string]interface{}{"direction": "implementation->documentation", "exact": exact, "mapping": m.Desc, "store": spec.String(), "bytes": len(e), "blocks": blockNames(blocks, 10)})
	}
}

// runC07ArbitraryWeights: encodings whose counts are arbitrary floats (long varfloat encodings, 9-byte
// counts). The oracle is the reference codec itself: whatever the stream holds according to the
// documentation is what every decoder must recover, bit for bit.
func runC07ArbitraryWeights(c *core.Ctx) {
	r := c.R
	m := gen.RandMap(r, true)
	spec := gen.RandPlainStore(r)
	exact := r.P(0.7)
	s := mon.NewSketch(exact, m.M, spec)
	vs := genValues(c, r, m, gen.StoreSpec{Kind: gen.SDense}, r.Range(1, 30), []string{"mixed", "mixed+zeros", "pos"}[r.Intn(3)], randSigmaIdx(r, 100))
	for _, v := range vs.vals {
		var w float64
		switch r.Intn(5) {
		case 0:
			w = []float64{0.1, 0.9, 1.0 / 3, 4.0 / 3, 5.6, 0.7, 2.2}[r.Intn(7)]
		case 1:
			w = r.Float()
		case 2:
			w = r.LogUniform(1e-6, 1e9)
		case 3:
			w = 1
		default:
			w = float64(r.Range(1, 1000)) / 7
		}
		c.SigF(v)
		c.SigF(w)
		if err := s.I().AddWithCount(v, w); err != nil {
			c.Failf("AddWithCount.rejected", "AddWithCount(%v,%v): %v", v, w, err)
			return
		}
	}
	if r.P(0.3) {
		s.I().Reweight([]float64{0.1, 0.3, 1.7, 1e-3}[r.Intn(4)])
	}
	if r.P(0.25) {
		// bins whose weight underflowed to zero
		s.I().AddWithCount(vs.vals[r.Intn(len(vs.vals))], 1e-300)
		s.I().AddWithCount(m.ClampIn(r.LogUniform(1e-3, 1e3)), 1e-300)
		s.I().Reweight(1e-30)
		c.Count("arbitrary.underflowed_bins", 1)
	}
	var e []byte
	omit := r.P(0.3)
	if c.Guard("Encode", func() { s.I().Encode(&e, omit) }) {
		return
	}
	c.Count("oracle.independent_parse", 1)
	c.Count("arbitrary_weight_encodings", 1)
	blocks, err := wire.Parse(e)
	if err != nil {
		c.Failf("wire.malformed", "the encoding is not a sequence of documented blocks: %v", err)
		return
	}
	ct := wire.ContentOf(blocks)
	for i := range blocks {
		if blocks[i].Type() == wire.TypeFeature && blocks[i].Sub() == wire.SubCount {
			c.Count("count_block_bytes."+itoa(blocks[i].End-blocks[i].Start-1), 1)
			if want := wire.VarfloatRoundTrip(s.I().GetCount()); blocks[i].Value != want {
				c.Failf("wire.count", "count block holds %v, expected (count+1)-1 = %v", blocks[i].Value, want)
			}
		}
	}
	c.Logf("arbitrary weights: exact=%v mapping %s store %s, %d bytes, blocks %v", exact, m.Desc, spec, len(e), blockNames(blocks, 10))
	for _, dec := range []bool{false, true} {
		if dec && !exact {
			continue // the exact decoder documents that it cannot read a non-empty plain encoding
		}
		for tk := 0; tk < 2; tk++ {
			target := gen.StoreSpec{Kind: tk} // dense, sparse: single accumulation order
			var d mon.Sketch
			var derr error
			if c.Guard("Decode", func() { d, derr = mon.Decode(dec, e, target, m.M) }) {
				return
			}
			if !dec && exact {
				c.Count("oracle.plain_decoder_on_exact_encoding", 1)
			}
			if derr != nil {
				c.Failf("decoder_rejects_valid_stream", "decoding (exact decoder=%v) the encoding of a sketch (exact=%v) with arbitrary float weights returned %v; blocks %v", dec, exact, derr, blockNames(blocks, 12))
				return
			}
			gp, _, _ := mon.ForEachBins(d.I().GetPositiveValueStore())
			gn, _, _ := mon.ForEachBins(d.I().GetNegativeValueStore())
			chk := func(side string, got []mon.KV, want map[int64]float64) {
				if len(got) != len(want) {
					c.Failf("arbitrary.bins", "%s: %d bins decoded, the stream holds %d", side, len(got), len(want))
					return
				}
				for _, b := range got {
					if w, ok := want[int64(b.K)]; !ok || math.Float64bits(w) != math.Float64bits(b.W) {
						c.Failf("arbitrary.weight", "%s bin %d decoded as %v, the stream holds %v", side, b.K, b.W, w)
						return
					}
				}
			}
			chk("positive", gp, ct.Pos)
			chk("negative", gn, ct.Neg)
			if d.I().GetZeroCount() != ct.Zero {
				c.Failf("arbitrary.zero", "zero count decoded as %v, the stream holds %v", d.I().GetZeroCount(), ct.Zero)
			}
		}
	}
	c.NonTrivial()
}

func blockNames(b []wire.Block, n int) []string {
	var out []string
	for i := range b {
		if i >= n {
			break
		}
		out = append(out, b[i].Name())
	}
	return out
}

// genGrammarStream draws a well-formed stream from the documented grammar around index centre.
func genGrammarStream(c *core.Ctx, r *rng.Rng, m *gen.Map, centre int, withStats bool, mappingMode int) []wire.Block {
	var blocks []wire.Block
	mapBlock := wire.Block{Flag: wire.Flag(wire.TypeMapping, mapSubOf(m.Kind)), Gamma: m.Gamma, Offset: m.Offset}
	nStore := r.Range(0, 6)
	budget := gen.Budget{}
	weight := func() float64 {
		if r.P(0.1) {
			return 0
		}
		return budget.Weight(r, 8, 1)
	}
	for i := 0; i < nStore; i++ {
		typ := byte(wire.TypePositive)
		if r.Bool() {
			typ = wire.TypeNegative
		}
		n := []int{0, r.Range(1, 4), r.Range(4, 40), r.Range(64, 100)}[r.Pick(1, 4, 4, 1)]
		if n == 0 {
			c.Count("grammar.empty_block", 1)
		}
		switch r.Intn(3) {
		case 0: // deltas and counts
			b := wire.Block{Flag: wire.Flag(typ, wire.SubBinsDeltasCounts)}
			idx := 0
			for j := 0; j < n; j++ {
				var d int
				if j == 0 {
					d = centre + r.Range(-200, 200)
				} else {
					d = []int{0, 1, -1, r.Range(-50, 50), r.Range(-2000, 2000)}[r.Pick(2, 4, 2, 3, 1)]
					if d == 0 {
						c.Count("grammar.repeated_index", 1)
					}
				}
				if idx+d > centre+20000 || idx+d < centre-20000 {
					d = centre - idx
				}
				idx += d
				b.Deltas = append(b.Deltas, int64(d))
				b.Counts = append(b.Counts, weight())
			}
			blocks = append(blocks, b)
		case 1: // deltas only (unit counts)
			b := wire.Block{Flag: wire.Flag(typ, wire.SubBinsDeltas)}
			idx := 0
			for j := 0; j < n; j++ {
				var d int
				if j == 0 {
					d = centre + r.Range(-200, 200)
				} else {
					d = []int{0, 1, -1, r.Range(-50, 50), r.Range(-2000, 2000)}[r.Pick(3, 4, 2, 3, 1)]
					if d == 0 {
						c.Count("grammar.repeated_index", 1)
					}
				}
				if idx+d > centre+20000 || idx+d < centre-20000 {
					d = centre - idx
				}
				idx += d
				b.Deltas = append(b.Deltas, int64(d))
				budget.Charge(1)
			}
			blocks = append(blocks, b)
		default: // contiguous with a stride
			stride := []int{1, 1, -1, 0, 2, -3, r.Range(-40, 40), 32, -32, r.Range(-600, 600)}[r.Intn(10)]
			if n*abs(stride) > 30000 {
				stride = 1
			}
			switch {
			case stride == 0:
				c.Count("grammar.stride_zero", 1)
				if n > 1 {
					c.Count("grammar.repeated_index", 1)
				}
			case stride < 0:
				c.Count("grammar.stride_negative", 1)
			}
			if stride != 1 {
				c.Count("grammar.stride_nonunit", 1)
			}
			b := wire.Block{Flag: wire.Flag(typ, wire.SubBinsContiguous), First: int64(centre + r.Range(-300, 300)), Stride: int64(stride)}
			for j := 0; j < n; j++ {
				b.Counts = append(b.Counts, weight())
			}
			blocks = append(blocks, b)
		}
	}
	if r.P(0.15) {
		// a block holding only zero counts
		typ := byte(wire.TypePositive)
		if r.Bool() {
			typ = wire.TypeNegative
		}
		blocks = append(blocks, wire.Block{Flag: wire.Flag(typ, wire.SubBinsContiguous), First: int64(centre + r.Range(-300, 300)), Stride: 1, Counts: make([]float64, r.Range(1, 70))})
		c.Count("grammar.all_zero_block", 1)
	}
	for i := r.Pick(3, 3, 1); i > 0; i-- {
		blocks = append(blocks, wire.Block{Flag: wire.Flag(wire.TypeFeature, wire.SubZeroCount), Value: budget.Weight(r, 8, 1)})
	}
	if withStats {
		c.Count("grammar.statistics_blocks", 1)
		for i := r.Range(1, 2); i > 0; i-- {
			lo := float64(r.Range(-100, 100))
			hi := lo + float64(r.Range(0, 50))
			blocks = append(blocks,
				wire.Block{Flag: wire.Flag(wire.TypeFeature, wire.SubCount), Value: float64(r.Range(1, 1000))},
				wire.Block{Flag: wire.Flag(wire.TypeFeature, wire.SubSum), Value: float64(r.Range(-5000, 5000)) / 8},
				wire.Block{Flag: wire.Flag(wire.TypeFeature, wire.SubMin), Value: lo},
				wire.Block{Flag: wire.Flag(wire.TypeFeature, wire.SubMax), Value: hi})
		}
	}
	// shuffle: blocks may come in any order
	p := r.Perm(len(blocks))
	sh := make([]wire.Block, len(blocks))
	for i, j := range p {
		sh[i] = blocks[j]
	}
	blocks = sh
	switch mappingMode {
	case 1: // mapping first
		blocks = append([]wire.Block{mapBlock}, blocks...)
	case 2: // mapping last
		blocks = append(blocks, mapBlock)
		c.Count("grammar.mapping_last", 1)
	case 3: // repeated identical mapping block, anywhere
		for i := 0; i < 2; i++ {
			pos := r.Intn(len(blocks) + 1)
			blocks = append(blocks[:pos], append([]wire.Block{mapBlock}, blocks[pos:]...)...)
		}
		c.Count("grammar.mapping_repeated", 1)
	}
	return blocks
}

func abs(x int) int {
	if x < 0 {
		return -x
	}
	return x
}

func runC07Doc2Impl(c *core.Ctx) {
	r := c.R
	m := gen.RandMap(r, true)
	centre := r.Range(-3000, 3000)
	if r.P(0.3) {
		centre = r.Range(-1<<30, 1<<30)
	}
	exactDecoder := r.P(0.35)
	withStats := exactDecoder || r.P(0.3)
	mappingMode := r.Intn(4) // 0 none (supplied by caller), 1 first, 2 last, 3 repeated
	blocks := genGrammarStream(c, r, m, centre, withStats, mappingMode)
	wide := r.P(0.06)
	if wide {
		// bins at both ends of the int32 index range inside one delta-encoded block: the documented varint64
		// deltas then exceed 2^31. Only stores without a span limit can take such a stream.
		typ := byte(wire.TypePositive)
		if r.Bool() {
			typ = wire.TypeNegative
		}
		b := wire.Block{Flag: wire.Flag(typ, wire.SubBinsDeltasCounts)}
		unit := r.Bool()
		if unit {
			b.Flag = wire.Flag(typ, wire.SubBinsDeltas)
		}
		idx := int64(0)
		for j, n := 0, r.Range(2, 6); j < n; j++ {
			var target int64
			if j%2 == 0 {
				target = int64(math.MinInt32) + 1 + int64(r.Intn(1000))
			} else {
				target = int64(math.MaxInt32) - 1 - int64(r.Intn(1000))
			}
			b.Deltas = append(b.Deltas, target-idx)
			idx = target
			if !unit {
				b.Counts = append(b.Counts, float64(r.Range(1, 9)))
			}
		}
		pos := r.Intn(len(blocks) + 1)
		if mappingMode == 1 && pos == 0 {
			pos = 1
		}
		blocks = append(blocks[:pos], append([]wire.Block{b}, blocks[pos:]...)...)
		c.Count("grammar.deltas_beyond_int32", 1)
	}
	stream := wire.Emit(blocks)
	c.SigB(stream)
	c.Logf("documentation -> implementation: %d blocks %v, %d bytes, mapping %s (mode %d), exact decoder=%v", len(blocks), blockNames(blocks, 12), len(stream), m.Desc, mappingMode, exactDecoder)
	if c.TraceOn {
		c.Logf("stream: % x", truncBytes(stream, 300))
	}
	// sanity of the generator: the reference parser must read back what it emitted
	back, err := wire.Parse(stream)
	if err != nil || len(back) != len(blocks) {
		c.Failf("harness.grammar", "internal: reference parser cannot read the generated stream: %v", err)
		return
	}
	for tk := 0; tk < 5; tk++ {
		target := gen.StoreSpec{Kind: tk}
		if target.Collapsing() {
			target.N = gen.RandN(r)
		}
		if wide && (tk == gen.SDense || tk == gen.SPaginated) {
			continue // span-limited stores cannot hold both ends of the index range
		}
		var supplied = m.M
		if mappingMode != 0 && r.Bool() {
			supplied = nil
		}
		intoNonEmpty := r.P(0.3)
		// a receiver that was used (enough to have grown arrays, pages and buffers) and cleared: as good as new
		intoReused := !intoNonEmpty && r.P(0.2)
		want := modelOfBlocks(back, m, target)
		var d mon.Sketch
		var derr error
		if intoNonEmpty || intoReused {
			if intoNonEmpty {
				c.Count("decoder.merge_into_nonempty", 1)
			} else {
				c.Count("decoder.into_reused_receiver", 1)
			}
			d = mon.NewSketch(exactDecoder, m.M, target)
			pre := mon.NewSketchModel(m, target)
			nPre := r.Range(1, 10)
			if intoReused {
				nPre = r.Range(10, 150)
			}
			for i := 0; i < nPre; i++ {
				v := 0.0
				if ci := centre + r.Range(-100, 100); ci > m.IMin+1 && ci < m.IMax-1 {
					v = m.M.Value(ci)
					if gi := m.M.Index(v); gi < centre-200 || gi > centre+200 || v > m.Max || v <= m.Min {
						v = 0
					} else if r.Bool() {
						v = -v
					}
				}
				d.I().Add(v)
				pre.Add(v, 1)
			}
			if intoReused {
				d.I().Clear()
				pre.Clear()
			}
			pre.Merge(want)
			want = pre
			if c.Guard("DecodeAndMergeWith", func() { derr = d.I().DecodeAndMergeWith(stream) }) {
				return
			}
		} else {
			if c.Guard("Decode", func() { d, derr = mon.Decode(exactDecoder, stream, target, supplied) }) {
				return
			}
		}
		if exactDecoder {
			c.Count("decoder.exact", 1)
		}
		c.Count("oracle.grammar_streams_decoded", 1)
		c.Count("grammar.decoded_into."+target.KindName(), 1)
		if derr != nil {
			c.Failf("decoder_rejects_valid_stream", "a well-formed stream (blocks %v) decoded into %s (exact decoder=%v, into non-empty=%v) returned %v", blockNames(blocks, 12), target, exactDecoder, intoNonEmpty, derr)
			return
		}
		if !d.Mapping().Equals(m.M) {
			c.Failf("decoded_mapping", "decoded mapping differs from the stream's %s", m.Desc)
			return
		}
		mon.CheckSketchBinsOnly(c, "grammar:"+target.KindName(), d, want)
		if c.Failed() {
			return
		}
		// the extreme indexes of both stores are those of the bins that hold weight (blocks of zero counts and
		// zero-length blocks are legal and hold nothing: they move no extreme)
		for side, st := range []store.Store{d.I().GetPositiveValueStore(), d.I().GetNegativeValueStore()} {
			md := want.Pos
			if side == 1 {
				md = want.Neg
			}
			lo, nonEmpty := md.Min()
			hi, _ := md.Max()
			gl, e1 := st.MinIndex()
			gh, e2 := st.MaxIndex()
			c.Count("oracle.grammar_extreme_index_checks", 1)
			if nonEmpty && (e1 != nil || e2 != nil || gl != lo || gh != hi) {
				c.Failf("grammar.extreme_indexes", "%s store after decoding into %s: MinIndex/MaxIndex = %d(%v)/%d(%v), the stream's non-empty bins span [%d,%d]", []string{"positive", "negative"}[side], target, gl, e1, gh, e2, lo, hi)
				return
			}
			if !nonEmpty && (e1 == nil || e2 == nil) && !st.IsEmpty() {
				c.Failf("grammar.extreme_indexes", "%s store after decoding into %s holds no weight but reports MinIndex/MaxIndex = %d/%d", []string{"positive", "negative"}[side], target, gl, gh)
				return
			}
		}
		if !exactDecoder {
			// emptiness and count must agree with what the stream holds (blocks of zero counts hold nothing)
			if got, wantEmpty := d.I().IsEmpty(), want.Total() == 0; got != wantEmpty {
				c.Failf("grammar.isempty", "decoded sketch reports IsEmpty()=%v, the stream holds total weight %v (into %s)", got, want.Total(), target)
				return
			}
			if got := d.I().GetCount(); got != want.Total() {
				c.Failf("grammar.count", "decoded GetCount()=%v, the stream holds total weight %v", got, want.Total())
				return
			}
		}
		if exactDecoder && !intoNonEmpty {
			ct := wire.ContentOf(back)
			k := d.I()
			if k.GetCount() != ct.Count {
				c.Failf("grammar.count", "count blocks sum to %v, decoded GetCount()=%v", ct.Count, k.GetCount())
			}
			if k.GetSum() != ct.Sum {
				c.Failf("grammar.sum", "sum blocks add up to %v, decoded GetSum()=%v", ct.Sum, k.GetSum())
			}
			if !k.GetPositiveValueStore().IsEmpty() || !k.GetNegativeValueStore().IsEmpty() || k.GetZeroCount() != 0 {
				mn, _ := k.GetMinValue()
				mx, _ := k.GetMaxValue()
				lo := math.Min(ct.Min, ct.Max)
				hi := math.Max(ct.Min, ct.Max)
				if mn != lo || mx != hi {
					c.Failf("grammar.minmax", "min/max blocks give [%v,%v], decoded [%v,%v]", lo, hi, mn, mx)
				}
			}
		}
	}
	nonUnit := false
	layouts := map[byte]bool{}
	for i := range blocks {
		if t := blocks[i].Type(); t == wire.TypePositive || t == wire.TypeNegative {
			layouts[blocks[i].Sub()] = true
			if blocks[i].Sub() == wire.SubBinsContiguous && blocks[i].Stride != 1 {
				nonUnit = true
			}
		}
	}
	if len(blocks) >= 3 && (len(layouts) >= 2 || nonUnit) {
		c.NonTrivial()
		c.Sample(map[string]interface{}{"direction": "documentation->implementation", "blocks": blockNames(blocks, 12), "bytes": len(stream), "mapping": m.Desc, "exact_decoder": exactDecoder})
	}
}
