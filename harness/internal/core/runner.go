package core

import (
	"bufio"
	"encoding/json"
	"fmt"
	"os"
	"os/exec"
	"path/filepath"
	"runtime"
	"runtime/debug"
	"sort"
	"strconv"
	"strings"
	"sync"
	"time"

	"verif/harness/internal/rng"
)

// ---------- files exchanged between parent and workers ----------

type caseDesc struct {
	Prop  string `json:"property"`
	Seed  uint64 `json:"seed"`
	Tier  string `json:"tier"`
	Index int    `json:"index"`
}

// Witness is the replay file written for a violation.
type Witness struct {
	caseDesc
	Class  string   `json:"class"`
	Msg    string   `json:"message"`
	Note   string   `json:"note,omitempty"`
	Trace  []string `json:"trace,omitempty"`
	Replay string   `json:"how_to_replay"`
}

type workerResult struct {
	Evaluations int                `json:"evaluations"`
	Counters    map[string]int64   `json:"counters"`
	Maxes       map[string]float64 `json:"maxes"`
	NonTrivial  []uint64           `json:"nontrivial_sigs"`
	Samples     []interface{}      `json:"samples"`
	Violations  []workerViolation  `json:"violations"`
	NumViol     int                `json:"num_violations"`
}

type workerViolation struct {
	Violation
	Witness string `json:"witness"`
}

func verifRoot() string {
	if r := os.Getenv("VERIF_ROOT"); r != "" {
		return r
	}
	return "/verif"
}

func outDir(prop string) string { return filepath.Join(verifRoot(), "out", prop) }

// casesFor returns the number of cases of a run (VERIF_CASES overrides it, for debugging only).
func casesFor(p *Prop, tier string) int {
	if s := os.Getenv("VERIF_CASES"); s != "" {
		if v, err := strconv.Atoi(s); err == nil && v > 0 {
			return v
		}
	}
	return p.Cases(tier)
}

func SeedFromEnv() uint64 {
	if s := os.Getenv("VERIF_SEED"); s != "" {
		if v, err := strconv.ParseInt(s, 10, 64); err == nil {
			return uint64(v)
		}
	}
	return 1
}

// heapLimit is the amount of memory one worker may obtain from the OS before its current case is declared
// process-fatal: 10 GB, or less when all workers together would then exceed 70% of the machine's memory
// (a change that turns garbage into indexes makes every worker grow at once).
func heapLimit(nworkers int) uint64 {
	limit := uint64(10 << 30)
	if b, err := os.ReadFile("/proc/meminfo"); err == nil {
		for _, l := range strings.Split(string(b), "\n") {
			if strings.HasPrefix(l, "MemTotal:") {
				f := strings.Fields(l)
				if len(f) >= 2 {
					if kb, err := strconv.ParseUint(f[1], 10, 64); err == nil && nworkers > 0 {
						if per := kb * 1024 / 10 * 7 / uint64(nworkers); per < limit {
							limit = per
						}
					}
				}
			}
		}
	}
	if limit < 1<<30 {
		limit = 1 << 30
	}
	return limit
}

// runCase executes one case under recover().
// OnCaseStart, when set, is called before every case with a value derived from the case's identity
// (monitors use it to vary what does not belong to the case's own PRNG stream, e.g. query order).
var OnCaseStart func(seed uint64)

func runCase(p *Prop, seed uint64, index int, tier string, traceOn bool) *Ctx {
	c := newCtx(p.ID, seed, index, tier, traceOn)
	if OnCaseStart != nil {
		OnCaseStart(rng.Hash(seed, rng.HashString(p.ID), uint64(index), 0x0b5e))
	}
	c.Guard("case", func() { p.Run(c) })
	return c
}

func writeJSON(path string, v interface{}) error {
	b, err := json.MarshalIndent(v, "", " ")
	if err != nil {
		return err
	}
	tmp := path + ".tmp"
	if err := os.WriteFile(tmp, b, 0o644); err != nil {
		return err
	}
	return os.Rename(tmp, path)
}

func classFile(class string) string {
	var sb strings.Builder
	for _, r := range class {
		if (r >= 'a' && r <= 'z') || (r >= 'A' && r <= 'Z') || (r >= '0' && r <= '9') || r == '-' || r == '_' {
			sb.WriteRune(r)
		} else {
			sb.WriteByte('_')
		}
	}
	s := sb.String()
	if len(s) > 60 {
		s = s[:60]
	}
	return s
}

func writeWitness(p *Prop, seed uint64, tier string, v Violation, note string) string {
	dir := outDir(p.ID)
	os.MkdirAll(dir, 0o755)
	w := Witness{caseDesc: caseDesc{Prop: p.ID, Seed: seed, Tier: tier, Index: v.Index}, Class: v.Class, Msg: v.Msg, Note: note}
	// Re-execute with tracing on so that the witness shows the event history.
	if note == "" {
		c := runCase(p, seed, v.Index, tier, true)
		w.Trace = c.trace
		if c.dropped > 0 {
			w.Trace = append(w.Trace, fmt.Sprintf("... %d more events dropped", c.dropped))
		}
		if !c.Failed() {
			w.Note = "violation did not reproduce on immediate re-execution (library iteration order is the only nondeterminism)"
		}
	}
	path := filepath.Join(dir, fmt.Sprintf("witness_%s_%d.json", classFile(v.Class), v.Index))
	w.Replay = fmt.Sprintf("%s/check %s --replay %s", verifRoot(), p.ID, path)
	writeJSON(path, w)
	return path
}

// ---------- worker ----------

// WorkerMain runs the cases i with i % nworkers == k.
func WorkerMain(propID, tier string, seed uint64, k, nworkers int, outPath, curPath string) int {
	p := Lookup(propID)
	if p == nil {
		fmt.Fprintln(os.Stderr, "unknown property", propID)
		return 2
	}
	debug.SetGCPercent(200)
	debug.SetMemoryLimit(int64(heapLimit(nworkers) / 2)) // soft: the collector works harder long before the watch looks
	// Heap watch: a mutant that interprets garbage as indexes must end as a
	// witness, not take the machine down.
	var curIndex int64 = -1
	var mu sync.Mutex
	var peakSys uint64
	limit := heapLimit(nworkers)
	go func() {
		var ms runtime.MemStats
		for {
			time.Sleep(100 * time.Millisecond)
			runtime.ReadMemStats(&ms)
			mu.Lock()
			if ms.Sys > peakSys {
				peakSys = ms.Sys
			}
			mu.Unlock()
			if ms.Sys > limit {
				// memory obtained from the OS includes garbage the collector has not got round to (on a loaded
				// machine it lags): collect, give back, and judge what is still live
				runtime.GC()
				debug.FreeOSMemory()
				runtime.ReadMemStats(&ms)
				if ms.HeapAlloc > limit/2 {
					mu.Lock()
					fmt.Fprintf(os.Stderr, "heap watch: %d bytes live (%d obtained from the OS) while running case %d\n", ms.HeapAlloc, ms.Sys, curIndex)
					os.Exit(3)
				}
			}
		}
	}()
	n := casesFor(p, tier)
	res := workerResult{Counters: map[string]int64{}, Maxes: map[string]float64{}}
	seenClass := map[string]bool{}
	for i := k; i < n; i += nworkers {
		mu.Lock()
		curIndex = int64(i)
		mu.Unlock()
		// The case descriptor is on disk before the case runs, so that an
		// unrecoverable death still leaves a replayable witness.
		os.WriteFile(curPath, []byte(fmt.Sprintf(`{"property":%q,"seed":%d,"tier":%q,"index":%d}`, propID, seed, tier, i)), 0o644)
		c := runCase(p, seed, i, tier, false)
		res.Evaluations++
		for name, v := range c.counters {
			res.Counters[name] += v
		}
		for name, v := range c.maxes {
			if old, ok := res.Maxes[name]; !ok || v > old {
				res.Maxes[name] = v
			}
		}
		if c.nontrivial {
			res.NonTrivial = append(res.NonTrivial, c.sig)
			if c.sample != nil && len(res.Samples) < 2 {
				res.Samples = append(res.Samples, c.sample)
			}
		}
		for _, v := range c.viol {
			res.NumViol++
			if seenClass[v.Class] || len(res.Violations) >= 12 {
				continue
			}
			seenClass[v.Class] = true
			res.Violations = append(res.Violations, workerViolation{Violation: v, Witness: writeWitness(p, seed, tier, v, "")})
		}
	}
	os.Remove(curPath)
	mu.Lock()
	res.Maxes["harness.worker_peak_memory_MB"] = float64(peakSys >> 20)
	mu.Unlock()
	if err := writeJSON(outPath, &res); err != nil {
		fmt.Fprintln(os.Stderr, "cannot write result:", err)
		return 2
	}
	return 0
}

// ---------- parent ----------

type knownFinding struct{ prop, key, desc string }

func loadKnown() []knownFinding {
	var out []knownFinding
	f, err := os.Open(filepath.Join(verifRoot(), "known_findings.txt"))
	if err != nil {
		return nil
	}
	defer f.Close()
	sc := bufio.NewScanner(f)
	for sc.Scan() {
		line := strings.TrimSpace(sc.Text())
		if !strings.HasPrefix(line, "known:") {
			continue // "fixed:" lines and comments suppress nothing
		}
		var kf knownFinding
		for _, tok := range strings.Fields(line[len("known:"):]) {
			if strings.HasPrefix(tok, "property=") && kf.prop == "" {
				kf.prop = tok[len("property="):]
			} else if strings.HasPrefix(tok, "key=") && kf.key == "" {
				kf.key = tok[len("key="):]
			} else {
				kf.desc += tok + " "
			}
		}
		if kf.prop != "" && kf.key != "" {
			out = append(out, kf)
		}
	}
	return out
}

// Evidence follows /root/.vp/EVIDENCE.schema.json.
type Evidence struct {
	PropertyID  string                 `json:"property_id"`
	Tier        string                 `json:"tier"`
	Seed        int64                  `json:"seed"`
	Level       string                 `json:"level"`
	Coverage    map[string]interface{} `json:"coverage"`
	Assumptions []string               `json:"assumptions"`
	WallS       float64                `json:"wall_s"`
	Violations  int                    `json:"violations"`
	Verdict     string                 `json:"verdict"`
}

// RunMain is the parent: splits the case list over worker processes, merges
// what their monitors observed, writes the evidence file, prints the verdict.
func RunMain(propID, tier string) int {
	start := time.Now()
	p := Lookup(propID)
	if p == nil {
		fmt.Fprintln(os.Stderr, "unknown property", propID)
		return 2
	}
	seed := SeedFromEnv()
	dir := outDir(propID)
	os.RemoveAll(dir)
	os.MkdirAll(dir, 0o755)
	evPath := filepath.Join(verifRoot(), "evidence", propID+".json")
	os.MkdirAll(filepath.Dir(evPath), 0o755)
	os.Remove(evPath)

	n := casesFor(p, tier)
	nw := runtime.NumCPU()
	if s := os.Getenv("VERIF_WORKERS"); s != "" {
		if v, err := strconv.Atoi(s); err == nil && v > 0 {
			nw = v
		}
	}
	if nw > 16 {
		nw = 16
	}
	if nw > n {
		nw = n
	}
	if nw < 1 {
		nw = 1
	}
	watchdog := 20 * time.Minute
	if tier == "thorough" {
		watchdog = 3 * time.Hour
	}
	exe, _ := os.Executable()

	type wstate struct {
		out, cur, log string
		err           error
		timedOut      bool
	}
	ws := make([]wstate, nw)
	var wg sync.WaitGroup
	for k := 0; k < nw; k++ {
		ws[k] = wstate{
			out: filepath.Join(dir, fmt.Sprintf("worker_%d.json", k)),
			cur: filepath.Join(dir, fmt.Sprintf("worker_%d.current", k)),
			log: filepath.Join(dir, fmt.Sprintf("worker_%d.log", k)),
		}
		wg.Add(1)
		go func(k int) {
			defer wg.Done()
			logf, _ := os.Create(ws[k].log)
			defer logf.Close()
			cmd := exec.Command(exe, "worker", propID, tier, strconv.FormatUint(seed, 10), strconv.Itoa(k), strconv.Itoa(nw), ws[k].out, ws[k].cur)
			cmd.Stdout = logf
			cmd.Stderr = logf
			cmd.Env = append(os.Environ(), "GOTRACEBACK=all")
			if err := cmd.Start(); err != nil {
				ws[k].err = err
				return
			}
			done := make(chan error, 1)
			go func() { done <- cmd.Wait() }()
			select {
			case err := <-done:
				ws[k].err = err
			case <-time.After(watchdog):
				cmd.Process.Signal(os.Interrupt)
				time.Sleep(200 * time.Millisecond)
				cmd.Process.Kill()
				<-done
				ws[k].timedOut = true
			}
		}(k)
	}
	wg.Wait()

	// Merge.
	total := workerResult{Counters: map[string]int64{}, Maxes: map[string]float64{}}
	distinct := map[uint64]bool{}
	type vrec struct {
		class, msg, witness string
	}
	var viols []vrec
	var incon []string
	seenClass := map[string]bool{}
	for k := range ws {
		if ws[k].timedOut {
			incon = append(incon, fmt.Sprintf("worker %d: watchdog (%v) fired; log %s", k, watchdog, ws[k].log))
			continue
		}
		b, rerr := os.ReadFile(ws[k].out)
		if ws[k].err != nil || rerr != nil {
			// The worker died. Attribute the death to its current case.
			cur, cerr := os.ReadFile(ws[k].cur)
			var cd caseDesc
			if cerr == nil && json.Unmarshal(cur, &cd) == nil && cd.Prop == propID {
				tail := tailOf(ws[k].log, 40)
				v := Violation{Class: "worker-died", Index: cd.Index, Msg: fmt.Sprintf("worker process died (%v) while running case %d: %s", ws[k].err, cd.Index, firstLine(tail))}
				w := writeWitness(p, seed, tier, v, "process-fatal: not re-executed in the parent; last lines of the worker log: "+tail)
				if !seenClass[v.Class] {
					seenClass[v.Class] = true
					viols = append(viols, vrec{v.Class, v.Msg, w})
				}
				total.NumViol++
			} else {
				incon = append(incon, fmt.Sprintf("worker %d failed (%v) without a current-case file; log %s", k, ws[k].err, ws[k].log))
			}
			continue
		}
		var r workerResult
		if err := json.Unmarshal(b, &r); err != nil {
			incon = append(incon, fmt.Sprintf("worker %d: unreadable result: %v", k, err))
			continue
		}
		total.Evaluations += r.Evaluations
		total.NumViol += r.NumViol
		for name, v := range r.Counters {
			total.Counters[name] += v
		}
		for name, v := range r.Maxes {
			if old, ok := total.Maxes[name]; !ok || v > old {
				total.Maxes[name] = v
			}
		}
		for _, s := range r.NonTrivial {
			distinct[s] = true
		}
		for _, s := range r.Samples {
			if len(total.Samples) < 4 {
				total.Samples = append(total.Samples, s)
			}
		}
		for _, v := range r.Violations {
			if !seenClass[v.Class] {
				seenClass[v.Class] = true
				viols = append(viols, vrec{v.Class, v.Msg, v.Witness})
			}
		}
	}

	extra := map[string]interface{}{}
	if p.Post != nil && len(incon) == 0 {
		pc := &PostCtx{Tier: tier, Seed: seed, OutDir: dir, Counters: total.Counters, Extra: extra}
		p.Post(pc)
		for _, v := range pc.Viol {
			total.NumViol++
			if !seenClass[v.Class] {
				seenClass[v.Class] = true
				viols = append(viols, vrec{v.Class, v.Msg, v.Replay})
			}
		}
		incon = append(incon, pc.Incon...)
	}

	for _, m := range p.Mandatory {
		if total.Counters[m] == 0 && len(viols) == 0 {
			incon = append(incon, fmt.Sprintf("mandatory coverage counter %q is zero: the monitors observed nothing of that kind", m))
		}
	}
	if len(distinct) < 2 && len(viols) == 0 {
		incon = append(incon, "fewer than 2 distinct non-trivial cases were observed")
	}

	// Known findings.
	known := loadKnown()
	sort.Slice(viols, func(i, j int) bool { return viols[i].class < viols[j].class })
	nNew := 0
	for _, v := range viols {
		isKnown := false
		for _, kf := range known {
			if kf.prop == propID && kf.key == v.class {
				fmt.Printf("KNOWN-FINDING: property=%s %s(class %s, witness %s)\n", propID, kf.desc, v.class, v.witness)
				isKnown = true
				break
			}
		}
		if !isKnown {
			nNew++
			fmt.Printf("VIOLATION property=%s replay=%s\n", propID, v.witness)
			fmt.Printf("  class=%s: %s\n", v.class, v.msg)
		}
	}

	verdict := "held"
	if nNew > 0 {
		verdict = "violated"
	} else if len(incon) > 0 {
		verdict = "inconclusive"
	}

	cov := map[string]interface{}{
		"evaluations":         total.Evaluations,
		"distinct_nontrivial": len(distinct),
		"rule":                p.Rule,
		"samples":             total.Samples,
		"counters":            total.Counters,
		"max_observed":        total.Maxes,
		"workers":             nw,
		"cases_planned":       n,
	}
	if p.Exhaustive {
		cov["exhaustive"] = false // only parts of the space are enumerated completely; see counters
	}
	for k, v := range extra {
		cov[k] = v
	}
	if len(total.Samples) == 0 {
		cov["samples"] = []interface{}{}
	}
	if len(incon) > 0 {
		cov["inconclusive_reasons"] = incon
	}
	assumptions := append([]string{"held only on the executions produced by this run (seeded case list); not a proof"}, p.Assumptions...)
	ev := Evidence{
		PropertyID: propID, Tier: tier, Seed: int64(seed), Level: p.Level, Coverage: cov,
		Assumptions: assumptions, WallS: time.Since(start).Seconds(), Violations: total.NumViol, Verdict: verdict,
	}
	if err := writeJSON(evPath, &ev); err != nil {
		fmt.Fprintln(os.Stderr, "cannot write evidence:", err)
		return 2
	}

	fmt.Printf("%s %s seed=%d: %s — %d cases, %d distinct non-trivial, %d violations, %.1fs (evidence %s)\n",
		propID, tier, seed, verdict, total.Evaluations, len(distinct), total.NumViol, time.Since(start).Seconds(), evPath)
	if os.Getenv("VERIF_VERBOSE") != "" {
		names := make([]string, 0, len(total.Counters))
		for name := range total.Counters {
			names = append(names, name)
		}
		sort.Strings(names)
		for _, name := range names {
			fmt.Printf("  %-48s %d\n", name, total.Counters[name])
		}
		names = names[:0]
		for name := range total.Maxes {
			names = append(names, name)
		}
		sort.Strings(names)
		for _, name := range names {
			fmt.Printf("  max %-44s %g\n", name, total.Maxes[name])
		}
	}
	switch verdict {
	case "violated":
		return 1
	case "inconclusive":
		for _, s := range incon {
			fmt.Fprintln(os.Stderr, "INCONCLUSIVE property="+propID+": "+s)
		}
		return 2
	}
	return 0
}

func tailOf(path string, n int) string {
	b, err := os.ReadFile(path)
	if err != nil {
		return ""
	}
	lines := strings.Split(strings.TrimRight(string(b), "\n"), "\n")
	// Keep the head of a Go fatal error / panic (most informative) rather than the very end.
	for i, l := range lines {
		if strings.HasPrefix(l, "fatal error:") || strings.HasPrefix(l, "panic:") || strings.HasPrefix(l, "heap watch:") {
			lines = lines[i:]
			break
		}
	}
	if len(lines) > n {
		lines = lines[:n]
	}
	return strings.Join(lines, " | ")
}

func firstLine(s string) string {
	if i := strings.Index(s, " | "); i >= 0 {
		return s[:i]
	}
	return s
}

// ---------- replay ----------

func ReplayMain(path string) int {
	b, err := os.ReadFile(path)
	if err != nil {
		fmt.Fprintln(os.Stderr, err)
		return 2
	}
	var w Witness
	if err := json.Unmarshal(b, &w); err != nil {
		fmt.Fprintln(os.Stderr, "bad witness file:", err)
		return 2
	}
	p := Lookup(w.Prop)
	if p == nil {
		fmt.Fprintln(os.Stderr, "unknown property", w.Prop)
		return 2
	}
	fmt.Printf("replaying property=%s seed=%d tier=%s case=%d (recorded class %q)\n", w.Prop, w.Seed, w.Tier, w.Index, w.Class)
	if w.Index < 0 {
		// witness of the parent-side pass (e.g. the race-detector pass): re-run that pass
		if p.Post == nil {
			fmt.Println("witness has no case index and the property has no parent-side pass")
			return 2
		}
		dir := filepath.Join(outDir(p.ID), "replay")
		os.RemoveAll(dir)
		os.MkdirAll(dir, 0o755)
		pc := &PostCtx{Tier: w.Tier, Seed: w.Seed, OutDir: dir, Counters: map[string]int64{}, Extra: map[string]interface{}{}}
		p.Post(pc)
		for _, s := range pc.Incon {
			fmt.Println("INCONCLUSIVE:", s)
		}
		for _, v := range pc.Viol {
			fmt.Printf("VIOLATION property=%s replay=%s\n  class=%s: %s\n", w.Prop, v.Replay, v.Class, v.Msg)
		}
		if len(pc.Viol) > 0 {
			return 1
		}
		if len(pc.Incon) > 0 {
			return 2
		}
		fmt.Println("no violation on replay")
		return 0
	}
	c := newCtx(p.ID, w.Seed, w.Index, w.Tier, true)
	c.Live = true
	c.Guard("case", func() { p.Run(c) })
	if c.Failed() {
		for _, v := range c.viol {
			fmt.Printf("VIOLATION property=%s replay=%s\n  class=%s: %s\n", w.Prop, path, v.Class, v.Msg)
		}
		return 1
	}
	fmt.Println("no violation on replay")
	return 0
}
