// Package core is the monitor runtime shared by all property checks: case
// contexts (PRNG, event trace, counters, verdicts), the registry of properties,
// the parent/worker process runner, witness files, replay and evidence output.
package core

import (
	"encoding/json"
	"fmt"
	"math"
	"os"
	"runtime"
	"sort"
	"strings"

	"verif/harness/internal/rng"
)

// Violation is one refutation event observed by a monitor.
type Violation struct {
	Class string `json:"class"` // stable class key: operation + failing condition
	Msg   string `json:"msg"`
	Index int    `json:"index"`
}

// Ctx is the context of one case.
type Ctx struct {
	Prop  string
	Seed  uint64
	Index int
	Tier  string
	R     *rng.Rng

	TraceOn bool
	Live    bool // print events as they happen (replay)
	trace   []string
	dropped int

	counters map[string]int64
	maxes    map[string]float64
	viol     []Violation

	nontrivial bool
	sig        uint64
	sample     interface{}

	// Scratch holds per-case state shared between helpers of a property (e.g. the exactness budget).
	Scratch map[string]interface{}
}

const traceCap = 4000

func newCtx(prop string, seed uint64, index int, tier string, traceOn bool) *Ctx {
	return &Ctx{
		Prop: prop, Seed: seed, Index: index, Tier: tier,
		R:        rng.New(rng.Hash(seed, rng.HashString(prop), uint64(index))),
		TraceOn:  traceOn,
		counters: map[string]int64{},
		maxes:    map[string]float64{},
		sig:      rng.Hash(rng.HashString(prop)),
		Scratch:  map[string]interface{}{},
	}
}

// Logf appends an event to the case's trace (kept only when tracing, i.e. when
// a witness is being produced or replayed).
func (c *Ctx) Logf(format string, args ...interface{}) {
	if !c.TraceOn {
		return
	}
	if c.Live {
		if os.Getenv("VERIF_MEM") != "" {
			var ms runtime.MemStats
			runtime.ReadMemStats(&ms)
			fmt.Printf("  [heap %dMB sys %dMB]", ms.HeapAlloc>>20, ms.Sys>>20)
		}
		fmt.Println("  " + fmt.Sprintf(format, args...))
		return
	}
	if len(c.trace) >= traceCap {
		c.dropped++
		return
	}
	c.trace = append(c.trace, fmt.Sprintf(format, args...))
}

// Failf records a violation. class must be a short stable key.
func (c *Ctx) Failf(class string, format string, args ...interface{}) {
	if len(c.viol) >= 16 {
		return
	}
	msg := fmt.Sprintf(format, args...)
	c.viol = append(c.viol, Violation{Class: class, Msg: msg, Index: c.Index})
	c.Logf("!! VIOLATION [%s] %s", class, msg)
}

func (c *Ctx) Failed() bool { return len(c.viol) > 0 }

// Count adds n to a coverage counter.
func (c *Ctx) Count(name string, n int) { c.counters[name] += int64(n) }

// Max records the maximum of a diagnostic quantity.
func (c *Ctx) Max(name string, v float64) {
	if math.IsNaN(v) || math.IsInf(v, 0) {
		return
	}
	if old, ok := c.maxes[name]; !ok || v > old {
		c.maxes[name] = v
	}
}

// NonTrivial marks the case as non-trivial by the property's rule.
func (c *Ctx) NonTrivial() { c.nontrivial = true }

// Sig mixes case-descriptor content into the signature used to count distinct cases.
func (c *Ctx) Sig(words ...uint64) {
	for _, w := range words {
		c.sig = rng.Hash(c.sig, w)
	}
}
func (c *Ctx) SigF(f float64) { c.Sig(math.Float64bits(f)) }
func (c *Ctx) SigS(s string)  { c.Sig(rng.HashString(s)) }
func (c *Ctx) SigI(i int)     { c.Sig(uint64(int64(i))) }
func (c *Ctx) SigB(b []byte)  { c.Sig(rng.HashString(string(b))) }

// Sample proposes a written-out description of this case for the evidence file.
func (c *Ctx) Sample(v interface{}) {
	if c.sample == nil {
		c.sample = jsonSafe(v)
	}
}

// jsonSafe replaces the floats JSON cannot hold (NaN, infinities) by their names, recursively through the maps and
// slices samples are made of.
func jsonSafe(v interface{}) interface{} {
	switch x := v.(type) {
	case float64:
		if math.IsNaN(x) || math.IsInf(x, 0) {
			return fmt.Sprint(x)
		}
		return x
	case []float64:
		out := make([]interface{}, len(x))
		for i, f := range x {
			out[i] = jsonSafe(f)
		}
		return out
	case []interface{}:
		out := make([]interface{}, len(x))
		for i, e := range x {
			out[i] = jsonSafe(e)
		}
		return out
	case map[string]interface{}:
		out := make(map[string]interface{}, len(x))
		for k, e := range x {
			out[k] = jsonSafe(e)
		}
		return out
	}
	// anything else (structs of the monitors): round-trip check, fall back to its printed form
	if _, err := json.Marshal(v); err != nil {
		return fmt.Sprintf("%+v", v)
	}
	return v
}

// Prop is one registered property check.
type Prop struct {
	ID          string
	Level       string // exploration | fault_enumeration
	Rule        string
	Cases       func(tier string) int
	Run         func(c *Ctx)
	Mandatory   []string // counters that must be non-zero, else the run is inconclusive
	Assumptions []string
	// Post is an optional parent-side pass (e.g. the race-detector pass of C14).
	Post func(p *PostCtx)
	// Exhaustive is set when the run enumerates a finite space completely.
	Exhaustive bool
}

// PostCtx is handed to Prop.Post.
type PostCtx struct {
	Tier     string
	Seed     uint64
	OutDir   string
	Counters map[string]int64
	Extra    map[string]interface{}
	Viol     []PostViolation
	Incon    []string
}

type PostViolation struct {
	Class, Msg, Replay string
}

var registry = map[string]*Prop{}

func Register(p *Prop) {
	if _, dup := registry[p.ID]; dup {
		panic("duplicate property " + p.ID)
	}
	registry[p.ID] = p
}

func Lookup(id string) *Prop { return registry[id] }

func IDs() []string {
	var ids []string
	for id := range registry {
		ids = append(ids, id)
	}
	sort.Strings(ids)
	return ids
}

// Scale is a helper for Cases: quick/thorough sizes.
func Scale(quick, thorough int) func(string) int {
	return func(tier string) int {
		if tier == "thorough" {
			return thorough
		}
		return quick
	}
}

// Guard runs f and converts a panic into a violation of class "panic:<where>".
func (c *Ctx) Guard(where string, f func()) (panicked bool) {
	defer func() {
		if r := recover(); r != nil {
			panicked = true
			c.Failf("panic:"+where, "panic in %s: %v", where, shorten(fmt.Sprint(r), 300))
		}
	}()
	f()
	return false
}

func shorten(s string, n int) string {
	s = strings.ReplaceAll(s, "\n", " | ")
	if len(s) > n {
		return s[:n] + "..."
	}
	return s
}

// CounterValue reads a counter of the current case.
func (c *Ctx) CounterValue(name string) int64 { return c.counters[name] }

// NewDetachedCtx returns a context that only serves generators (counters are discarded).
func NewDetachedCtx(r *rng.Rng) *Ctx {
	return &Ctx{R: r, counters: map[string]int64{}, maxes: map[string]float64{}, Scratch: map[string]interface{}{}}
}
