package props

import (
	"math"
	"math/big"
	"sort"

	"verif/harness/internal/wire"

	"verif/harness/internal/core"
	"verif/harness/internal/gen"
	"verif/harness/internal/mon"
)

func init() {
	core.Register(&core.Prop{
		ID:    "C10",
		Level: "exploration",
		Rule: "case = seeded history (1-60 ops) on a sketch with exact summary statistics over {Add, AddWithCount (incl. weight 0), rejected calls through Add, AddWithCount, Reweight and MergeWith (NaN, +-Inf, beyond the largest indexable value, negative weight, factor 0, an argument with another mapping - also into an empty or just cleared receiver), MergeWith, DecodeAndMergeWith, Copy-continue, Clear, Reweight, ChangeMapping, Encode->Decode into any store kind, protobuf round trip of the sketch with the statistics carried by their getters and both put together again by NewSummaryStatisticsFromData / NewDDSketchWithExactSummaryStatisticsFromData} with values from the hostile value generator (plus adversarial sum sequences: 2^53 then many 1.0, alternating +-large, tiny after huge) and dyadic weights; " +
			"in 40% of the histories up to 3 copies stay alive as companions (they keep absorbing values, are reweighted and cleared, are merged into the sketch and receive it as merge argument; every oracle applies to each of them), 35% are quiet (queries only after every 2nd-12th event); after every (queried) event: GetCount exact, IsEmpty iff nothing with positive weight, GetMin/MaxValue bitwise the true extremes, GetSum within (16+8L)*2^-53*sum|v*w| of the exact sum (L = lossy events), every quantile == clamp(plain answer, min, max) and inside [min,max], bins equal to the model when defined. " +
			"One case in ten drives stat.SummaryStatistics directly (Add, AddToCount/AddToSum, MergeWith, Reweight, Rescale, Copy, Clear, NewSummaryStatisticsFromData) against the same exact model. Non-trivial = history with >=1 merge-or-decode and >=1 of {Reweight, Clear, Copy, ChangeMapping} (statistics-level cases: >=4 operation kinds); distinct = hash of the history.",
		Cases:     core.Scale(30000, 800000),
		Mandatory: []string{"oracle.stat_checks", "oracle.sum_checks", "oracle.quantile_clamp_checks", "event.MergeWith", "event.DecodeAndMergeWith", "event.Reweight", "event.ChangeMapping", "event.Encode->Decode", "event.ToProto->FromProto", "event.Copy->continue", "event.Clear", "adversarial_sum_cases", "adversarial_copy_chains", "zero_weight_adds", "event.rejected_call", "oracle.stats_level_checks", "stats_level.event.Rescale", "stats_level.event.MergeWith", "stats_level.event.NewSummaryStatisticsFromData", "event.rejected_merge_into_empty_receiver", "histories_with_live_companions", "event.MergeWith(live companion)", "event.companion.MergeWith(sketch)", "quiet.histories"},
		Assumptions: []string{
			"dyadic weights under the exactness budget make the count exact; sum bound calibrated (DESIGN §3.6)",
			"a ChangeMapping may round min/max like fl(extreme*factor)",
		},
		Run: runC10,
	})
	core.Register(&core.Prop{
		ID:    "C12",
		Level: "exploration",
		Rule: "case = seeded history (adds, weighted adds, merges, decodes, copies, clears, round trips) on either sketch variant over all 5 store kinds and all mapping kinds, with data shapes all-negative, all-zero, zero+negative, single value, sub-minimum only, mixed; 40% of the histories with up to 3 live companions (copies that stay in use, merged with the sketch in both directions, every oracle applied to each), 35% quiet (queries only after every 2nd-12th event); after every (queried) event: count == zero + both sides (exact), IsEmpty iff count==0, min/max in the bin of the true (clamped for collapsing stores) extreme or 0, " +
			"quantiles non-decreasing over a sorted q grid and within [min,max], batch == singles, same-signed data: |GetSum - true sum| <= (alpha+64u)|true sum|, ForEach yields each non-empty bin once with weight>0 summing exactly to count and stops after exactly min(k,#bins) calls. Non-trivial = special data shape or history with merge/decode; distinct = hash of the history.",
		Cases:     core.Scale(60000, 1500000),
		Mandatory: []string{"oracle.coherence_checks", "oracle.foreach_stop_checks", "oracle.sum_checks", "oracle.monotone_checks", "shape.neg", "shape.zeros", "shape.zeros+neg", "shape.single", "shape.submin", "oracle.extreme_checks.collapsed", "event.refused_call", "event.decode_zero_block", "histories_with_live_companions", "event.MergeWith(live companion)", "event.companion.MergeWith(sketch)", "quiet.histories"},
		Run:       runC12,
	})
	core.Register(&core.Prop{
		ID:    "C16",
		Level: "exploration",
		Rule: "case = sketch reached by a seeded history (both variants, all 5 store kinds, both signs), (40% with live companions: copies that stay in use, are reweighted on their own and merged with the sketch), then Reweight(w) for dyadic-budgeted w in {a*2^k}: <1, =1, >1; oracle: every bin, the zero bucket and the count equal the model scaled by w exactly, exact sum within the bound, exact min/max bitwise unchanged, and the whole observation equals that of a second real sketch built by adding the same items with weights*w - right after the call and again after both absorbed the same few further additions; " +
			"the hook shows paginated stores holding both buffered and paged indexes at the time of the call. Non-trivial = both sides non-empty and w != 1; distinct = hash of the history and w.",
		Cases:     core.Scale(80000, 2000000),
		Mandatory: []string{"oracle.reweight_checks", "oracle.rebuilt_twin_checks", "reweight.lt1", "reweight.gt1", "reweight.eq1", "reweight.near_one", "layout.reweight_with_buffer_and_pages", "reweight.both_sides", "histories_with_live_companions", "oracle.companion_checks", "event.ChangeMapping", "oracle.continued_after_reweight", "reweight.after_a_refused_reweight", "reweight.sum_leaves_float64_range"},
		Run:       runC16,
	})
}

// exactStats computes count, extremes and the exact sum of the items with positive weight.
type exactStats struct {
	n           int
	count       float64
	min, max    float64
	sum, absSum float64
}

func statsOf(items []mon.Item) exactStats {
	st := exactStats{min: math.Inf(1), max: math.Inf(-1)}
	acc := new(big.Float).SetPrec(2400)
	for _, it := range items {
		if !(it.W > 0) {
			continue
		}
		st.n++
		st.count += it.W
		if it.V < st.min {
			st.min = it.V
		}
		if it.V > st.max {
			st.max = it.V
		}
		p := new(big.Float).SetPrec(2400).SetFloat64(it.V)
		p.Mul(p, new(big.Float).SetPrec(2400).SetFloat64(it.W))
		acc.Add(acc, p)
		st.absSum += math.Abs(it.V * it.W)
	}
	st.sum, _ = acc.Float64()
	return st
}

var clampGrid = []float64{0, 1e-9, 0.001, 0.01, 0.1, 0.25, 0.5, 0.75, 0.9, 0.99, 0.999, 1 - 1e-9, 1}

func checkExactStats(c *core.Ctx, st *skState) {
	s := st.s
	k := s.I()
	es := statsOf(st.mdl.Items)
	c.Count("oracle.stat_checks", 1)
	if got := k.GetCount(); got != es.count {
		c.Failf("exact.count", "GetCount()=%v, exact total weight %v", got, es.count)
	}
	if got := k.IsEmpty(); got != (es.n == 0) {
		c.Failf("exact.isempty", "IsEmpty()=%v but %d items with positive weight were absorbed", got, es.n)
	}
	mn, e1 := k.GetMinValue()
	mx, e2 := k.GetMaxValue()
	if es.n == 0 {
		if e1 == nil || e2 == nil {
			c.Failf("exact.minmax.empty", "GetMin/MaxValue on an empty sketch returned no error (%v,%v)", mn, mx)
		}
	} else {
		if e1 != nil || math.Float64bits(mn) != math.Float64bits(es.min) && !(mn == 0 && es.min == 0) {
			c.Failf("exact.min", "GetMinValue()=%v,%v; true minimum %v", mn, e1, es.min)
		}
		if e2 != nil || math.Float64bits(mx) != math.Float64bits(es.max) && !(mx == 0 && es.max == 0) {
			c.Failf("exact.max", "GetMaxValue()=%v,%v; true maximum %v", mx, e2, es.max)
		}
	}
	c.Count("oracle.sum_checks", 1)
	got := k.GetSum()
	L := float64(st.mdl.Lossy)
	bound := (16+8*L)*0x1p-53*es.absSum + 1e-300 // the additive term covers rounding of subnormal products
	if es.absSum > st.mdl.PeakAbs {
		st.mdl.PeakAbs = es.absSum
	}
	if st.mdl.PeakAbs > math.MaxFloat64/1024 {
		c.Count("oracle.sum_checks.skipped_overflow", 1)
		// beyond the float64 range nothing is "a few ulps", but same-signed data whose exact sum is out of range
		// has only one answer that is accurate to rounding: the infinity of that sign (never NaN, never finite)
		if es.n > 0 && (es.min >= 0 || es.max <= 0) && math.IsInf(es.sum, 0) {
			c.Count("oracle.sum_checks.overflowed_same_sign", 1)
			if got != es.sum {
				c.Failf("exact.sum.overflow", "GetSum()=%v, the exact sum of %d same-signed items is beyond the float64 range (%v expected)", got, es.n, es.sum)
			}
		}
	} else if !(math.Abs(got-es.sum) <= bound) {
		c.Failf("exact.sum", "GetSum()=%v, exact %v: |diff| %g > bound %g (%d items, %v lossy events)", got, es.sum, math.Abs(got-es.sum), bound, es.n, L)
	}
	if es.absSum > 1e-280 && st.mdl.PeakAbs <= math.MaxFloat64/1024 {
		c.Max("sum_error_in_units_of_2^-53_sum_abs", math.Abs(got-es.sum)/(0x1p-53*es.absSum))
		c.Max("sum_error_as_fraction_of_bound", math.Abs(got-es.sum)/bound)
	}
	// with arbitrary (non-dyadic) weights the sparse store's totals depend on map iteration order, so
	// two evaluations of the same query may legitimately differ in the last bit of a rank
	fuzzy := st.mdl.BinsUnknown && storesSparse(s)
	if es.n > 0 && !c.Failed() {
		for _, q := range clampGrid {
			y, err := k.GetValueAtQuantile(q)
			yp, errp := s.E.DDSketch.GetValueAtQuantile(q)
			c.Count("oracle.quantile_clamp_checks", 1)
			if err != nil || errp != nil {
				c.Failf("exact.quantile.error", "GetValueAtQuantile(%v) on a non-empty sketch: %v / %v", q, err, errp)
				return
			}
			want := yp
			if want < es.min {
				want = es.min
			}
			if want > es.max {
				want = es.max
			}
			if y != want && !fuzzy {
				c.Failf("exact.quantile.clamp", "quantile(%v)=%v, expected clamp(plain answer %v, %v, %v)=%v", q, y, yp, es.min, es.max, want)
			}
			if y < es.min || y > es.max {
				c.Failf("exact.quantile.range", "quantile(%v)=%v outside the exact [min,max]=[%v,%v]", q, y, es.min, es.max)
			}
		}
		// the batch query takes the quantiles in any order
		grid := append([]float64{}, clampGrid...)
		if c.R.Bool() {
			for i, j := range c.R.Perm(len(grid)) {
				grid[i] = clampGrid[j]
			}
			c.Count("oracle.batch_in_shuffled_order", 1)
		}
		ys, err := k.GetValuesAtQuantiles(grid)
		if err != nil || len(ys) != len(grid) {
			c.Failf("exact.batch.error", "GetValuesAtQuantiles: %v", err)
		} else {
			for i, q := range grid {
				if y1, _ := k.GetValueAtQuantile(q); ys[i] != y1 && !fuzzy {
					c.Failf("exact.batch.differs", "batch quantile(%v)=%v, single=%v", q, ys[i], y1)
				}
			}
		}
	}
	if !st.mdl.BinsUnknown {
		mon.CheckSketchBins(c, "exact", s, st.mdl)
	}
}

func runC10(c *core.Ctx) {
	r := c.R
	if c.Index%10 == 9 {
		runC10Stats(c)
		return
	}
	m := gen.RandMap(r, true)
	spec := gen.RandAnyStore(r)
	pattern := signPatterns[r.Intn(len(signPatterns))]
	h := newHistGen(c, r, m, spec, pattern, randSigmaIdx(r, 300))
	h.exact = true
	h.anySpec = true
	h.weights[opChangeMapping] = 3
	if r.P(0.4) {
		h.withCompanions()
		c.Count("histories_with_live_companions", 1)
	}
	adversarial := r.P(0.15)
	if adversarial {
		// adversarial sequences for the compensated sum
		c.Count("adversarial_sum_cases", 1)
		big := m.ClampIn(0x1p53)
		if big > m.Max/1e6 {
			big = m.Max / 1e6
		}
		switch r.Intn(3) {
		case 0:
			h.pool = []float64{big, 1, 1, 1, 1, 1, 1, 1}
		case 1:
			h.pool = []float64{big, -big, big * 3, -big * 3, 1, -1, 0.1}
		default:
			h.pool = []float64{big * 1024, m.ClampIn(1e-9), m.ClampIn(1e-9), m.ClampIn(3e-7), -m.ClampIn(1e-9)}
		}
		h.weights[opAdd] = 60
		h.weights[opChangeMapping] = 0
	}
	copyChain := adversarial && r.P(0.4)
	if copyChain {
		c.Count("adversarial_copy_chains", 1)
	}
	n := r.Range(1, 60)
	if adversarial {
		n = r.Range(200, 3000)
	}
	soak := false
	if c.Tier == "thorough" && !adversarial && c.Index%3000 == 5 {
		n = r.Range(5000, 20000)
		soak = true
		h.weights[opClear] = 0
		h.weights[opChangeMapping] = 1
		c.Count("soak.histories", 1)
		c.Count("soak.operations", n)
	}
	ops := h.gen(n)
	if copyChain {
		// one large value, then a history that keeps working on copies: copy, add a small value, copy, add, ...
		big, small := h.pool[0], 1.0
		if r.Bool() {
			big, small = m.ClampIn(1), m.ClampIn(1e-17)
		}
		ops = []skOp{{kind: opAdd, v: big, w: 1}}
		for i, k := 0, r.Range(200, 1200); i < k; i++ {
			ops = append(ops, skOp{kind: opCopySwitch}, skOp{kind: opAdd, v: small, w: 1})
		}
	}
	st := newSkState(c, "x", true, m, spec)
	quiet := 0
	if r.P(0.35) {
		// quiet history: most events are not followed by any query
		quiet = r.Range(2, 12)
		c.Count("quiet.histories", 1)
	}
	c.Logf("exact sketch, mapping %s, store %s, pattern %s", m.Desc, spec, pattern)
	c.SigS(m.Desc)
	c.SigS(spec.String())
	kinds := map[int]bool{}
	for i, op := range ops {
		c.SigI(op.kind)
		c.SigF(op.v)
		c.SigF(op.w)
		if (op.kind == opAddW) && op.w == 0 {
			c.Count("zero_weight_adds", 1)
		}
		if !st.apply(op) {
			return
		}
		kinds[op.kind] = true
		if r.P(0.08) || (op.kind == opClear && r.P(0.5)) {
			// a rejected call through either entry point: the statistics absorb nothing
			k := st.s.I()
			var err error
			what := ""
			beyond := math.Nextafter(st.m.M.MaxIndexableValue(), math.Inf(1))
			c.Guard("rejected call", func() {
				pick := r.Intn(12)
				if op.kind == opClear {
					pick = 9 + r.Intn(3) // an empty receiver has nothing of its own: a refused merge must leave it so
				}
				switch pick {
				case 9, 10, 11:
					// a merge refused because the mappings differ (argument: a non-empty exact sketch of another accuracy)
					al := st.m.M.RelativeAccuracy() * 1.5
					if al >= 0.99 {
						al = st.m.M.RelativeAccuracy() / 2
					}
					om, merr := gen.NewMap(st.m.Kind, al)
					if merr != nil {
						what, err = "Reweight(0)", k.Reweight(0)
						return
					}
					other := mon.NewSketch(true, om.M, gen.RandPlainStore(r))
					other.I().AddWithCount(om.ClampIn(3), 2)
					other.I().AddWithCount(-om.ClampIn(40), 1.5)
					other.I().Add(0)
					what, err = "MergeWith(non-empty sketch of another accuracy)", st.s.MergeWith(other)
					c.Count("event.rejected_merge", 1)
					if st.mdl.Total() == 0 {
						c.Count("event.rejected_merge_into_empty_receiver", 1)
					}
				case 0:
					what, err = "Add(NaN)", k.Add(math.NaN())
				case 1:
					what, err = "Add(+Inf)", k.Add(math.Inf(1))
				case 2:
					what, err = "Add(-Inf)", k.Add(math.Inf(-1))
				case 3:
					what, err = "Add(MaxFloat64)", k.Add(math.MaxFloat64)
				case 4:
					what, err = "Add(-next(MaxIndexableValue))", k.Add(-beyond)
				case 5:
					what, err = "AddWithCount(NaN, 2)", k.AddWithCount(math.NaN(), 2)
				case 6:
					what, err = "AddWithCount(next(MaxIndexableValue), 0.5)", k.AddWithCount(beyond, 0.5)
				case 7:
					what, err = "AddWithCount(v, -1)", k.AddWithCount(st.m.ClampIn(1), -1)
				default:
					what, err = "Reweight(0)", k.Reweight(0)
				}
			})
			c.Logf("rejected call %s -> %v", what, err)
			c.Count("event.rejected_call", 1)
			if err == nil && !c.Failed() {
				c.Failf("exact.rejected_call_accepted", "%s returned no error", what)
			}
		}
		if (!adversarial && !soak && (quiet == 0 || i%quiet == 0)) || i%97 == 0 || i == len(ops)-1 {
			for _, l := range st.live() {
				checkExactStats(c, l)
			}
		}
		if c.Failed() {
			return
		}
	}
	if (kinds[opMerge] || kinds[opDecodeMerge] || kinds[opRoundTrip]) && (kinds[opReweight] || kinds[opClear] || kinds[opCopySwitch] || kinds[opChangeMapping]) {
		c.NonTrivial()
		c.Sample(map[string]interface{}{"mapping": m.Desc, "store": spec.String(), "pattern": pattern, "ops": len(ops), "first_ops": opStrings(ops, 6)})
	}
}

func storesSparse(s mon.Sketch) bool {
	return layoutOf(s.I().GetPositiveValueStore()).Kind == "sparse" || layoutOf(s.I().GetNegativeValueStore()).Kind == "sparse"
}

func opStrings(ops []skOp, n int) []string {
	var out []string
	for i := 0; i < len(ops) && i < n; i++ {
		out = append(out, ops[i].String())
	}
	return out
}

// ---------- C12 ----------

// extremeOK checks a reported extreme y against the true extreme x (no weight has been folded):
// within alpha of it, 0 when it sits in the zero bucket.
func extremeOK(st *skState, y, x float64) bool {
	return st.m.Matches(y, x)
}

// inBin tells whether y lies in bin (sign, index) - or is 0 when zero is set.
func inBin(m *gen.Map, y float64, zero bool, negative bool, index int) bool {
	if zero {
		return y == 0
	}
	if y == 0 || (y < 0) != negative {
		return false
	}
	return m.M.Index(math.Abs(y)) == index
}

// binExtremes derives, from the bin-level content, the bins in which the reported extremes must
// lie: the clamped extremes when bounded stores folded weight.
type extremeBin struct {
	zero, negative bool
	index          int
}

func binExtremes(md *mon.SketchModel) (mn, mx extremeBin) {
	switch {
	case !md.Neg.Empty():
		i, _ := md.Neg.Max()
		mn = extremeBin{negative: true, index: i}
	case md.Zero > 0:
		mn = extremeBin{zero: true}
	default:
		i, _ := md.Pos.Min()
		mn = extremeBin{index: i}
	}
	switch {
	case !md.Pos.Empty():
		i, _ := md.Pos.Max()
		mx = extremeBin{index: i}
	case md.Zero > 0:
		mx = extremeBin{zero: true}
	default:
		i, _ := md.Neg.Min()
		mx = extremeBin{negative: true, index: i}
	}
	return
}

func checkCoherence(c *core.Ctx, st *skState) {
	k := st.s.I()
	m := st.m
	c.Count("oracle.coherence_checks", 1)
	count := k.GetCount()
	zero := k.GetZeroCount()
	pt := k.GetPositiveValueStore().TotalCount()
	nt := k.GetNegativeValueStore().TotalCount()
	if count != zero+pt+nt {
		c.Failf("coherence.count", "GetCount()=%v != zero %v + positive %v + negative %v", count, zero, pt, nt)
	}
	if want := st.mdl.Total(); count != want {
		c.Failf("coherence.count_model", "GetCount()=%v, total absorbed weight %v", count, want)
	}
	if got := k.IsEmpty(); got != (count == 0) {
		c.Failf("coherence.isempty", "IsEmpty()=%v with count %v", got, count)
	}
	items := st.mdl.SortedItems()
	mn, e1 := k.GetMinValue()
	mx, e2 := k.GetMaxValue()
	if len(items) == 0 {
		if e1 == nil || e2 == nil {
			c.Failf("coherence.minmax.empty", "GetMin/MaxValue on an empty sketch returned no error")
		}
		if _, err := k.GetValueAtQuantile(0.5); err == nil {
			c.Failf("coherence.quantile.empty", "GetValueAtQuantile on an empty sketch returned no error")
		}
		return
	}
	if e1 != nil || e2 != nil {
		c.Failf("coherence.minmax.error", "GetMin/MaxValue on a non-empty sketch: %v / %v", e1, e2)
		return
	}
	xmin, xmax := items[0].V, items[len(items)-1].V
	folded := st.mdl.EverFolded()
	c.Count("oracle.extreme_checks", 1)
	if st.s.Exact {
		// the exact variant reports the true extremes themselves
		es := statsOf(st.mdl.Items)
		if mn != es.min || mx != es.max {
			c.Failf("coherence.exact_extremes", "exact variant reports [min,max]=[%v,%v], true extremes [%v,%v]", mn, mx, es.min, es.max)
		}
	} else {
		if folded {
			c.Count("oracle.extreme_checks.collapsed", 1)
		} else {
			if !extremeOK(st, mn, xmin) {
				c.Failf("coherence.min", "GetMinValue()=%v is not in the bin of the true minimum %v (mapping %s, store %s)", mn, xmin, m.Desc, st.spec)
			}
			if !extremeOK(st, mx, xmax) {
				c.Failf("coherence.max", "GetMaxValue()=%v is not in the bin of the true maximum %v (mapping %s, store %s)", mx, xmax, m.Desc, st.spec)
			}
		}
		// in every case: the representative of the extreme non-empty bin (clamped extremes when folded)
		bmn, bmx := binExtremes(st.mdl)
		if !inBin(m, mn, bmn.zero, bmn.negative, bmn.index) || !inBin(m, mx, bmx.zero, bmx.negative, bmx.index) {
			c.Failf("coherence.clamped_extremes", "GetMin/MaxValue()=[%v,%v] do not lie in the extreme non-empty bins of the (folded) content: %+v / %+v (store %s)", mn, mx, bmn, bmx, st.spec)
		}
	}
	// quantiles: monotone, within [min,max], batch == singles
	qs := append([]float64{}, mon.ObsGrid...)
	for i := 0; i < 6; i++ {
		qs = append(qs, c.R.Float())
	}
	sort.Float64s(qs)
	batch, berr := k.GetValuesAtQuantiles(qs)
	if berr != nil || len(batch) != len(qs) {
		c.Failf("coherence.batch.error", "GetValuesAtQuantiles: %v (len %d)", berr, len(batch))
		return
	}
	if c.R.Bool() {
		// the batch query takes the quantiles in any order
		sh := make([]float64, len(qs))
		for i, j := range c.R.Perm(len(qs)) {
			sh[i] = qs[j]
		}
		sb, err := k.GetValuesAtQuantiles(sh)
		if err != nil || len(sb) != len(sh) {
			c.Failf("coherence.batch.error", "GetValuesAtQuantiles (shuffled order): %v", err)
			return
		}
		for i, q := range sh {
			if y, _ := k.GetValueAtQuantile(q); y != sb[i] {
				c.Failf("coherence.batch.differs", "batch (shuffled order) quantile(%v)=%v, single %v", q, sb[i], y)
			}
		}
		c.Count("oracle.batch_in_shuffled_order", 1)
	}
	prev := math.Inf(-1)
	c.Count("oracle.monotone_checks", 1)
	for i, q := range qs {
		y, err := k.GetValueAtQuantile(q)
		if err != nil {
			c.Failf("coherence.quantile.error", "GetValueAtQuantile(%v): %v", q, err)
			return
		}
		if y != batch[i] {
			c.Failf("coherence.batch.differs", "batch quantile(%v)=%v, single %v", q, batch[i], y)
		}
		if y < prev {
			c.Failf("coherence.monotone", "quantile(%v)=%v < quantile(%v)=%v", q, y, qs[i-1], prev)
		}
		if y < mn || y > mx {
			c.Failf("coherence.range", "quantile(%v)=%v outside reported [min,max]=[%v,%v]", q, y, mn, mx)
		}
		prev = y
	}
	// approximate sum for same-signed data (only meaningful when nothing was folded)
	if !folded && (xmin >= 0 || xmax <= 0) {
		es := statsOf(st.mdl.Items)
		got := k.GetSum()
		c.Count("oracle.sum_checks", 1)
		slack := 0.0
		for _, it := range items {
			if s := m.Slack(it.V); s > slack {
				slack = s
			}
		}
		// zero-bucket members contribute 0 to the sketch's sum and at most Min*w to the true sum
		if es.absSum > st.mdl.PeakAbs {
			st.mdl.PeakAbs = es.absSum
		}
		if st.mdl.PeakAbs > math.MaxFloat64/1024 {
			// near or beyond the float64 range "within alpha" says little, but a same-signed total is never NaN,
			// and one that is out of range by more than a factor (1+alpha)/(1-alpha) is the infinity of its sign
			g := (1 + m.M.RelativeAccuracy()) / (1 - m.M.RelativeAccuracy())
			tot := new(big.Float).SetPrec(200)
			for _, it := range st.mdl.Items {
				if it.W > 0 {
					p := new(big.Float).SetPrec(200).SetFloat64(it.V)
					tot.Add(tot, p.Mul(p, new(big.Float).SetFloat64(it.W)))
				}
			}
			lim := new(big.Float).SetPrec(200).SetFloat64(math.MaxFloat64)
			lim.Mul(lim, new(big.Float).SetFloat64(2*g))
			c.Count("oracle.sum_checks.beyond_float64_range", 1)
			if got != got {
				c.Failf("coherence.sum.nan", "GetSum()=NaN for same-signed data (%d items)", len(items))
			} else if new(big.Float).Abs(tot).Cmp(lim) > 0 && !math.IsInf(got, tot.Sign()) {
				c.Failf("coherence.sum.overflow", "GetSum()=%v, the true sum of same-signed data is beyond the float64 range", got)
			}
			return
		}
		tol := (m.M.RelativeAccuracy()+slack)*math.Abs(es.sum) + m.Min*st.mdl.Zero*2 + float64(len(items)+1)*0x1p-50*es.absSum
		if !(math.Abs(got-es.sum) <= tol) {
			c.Failf("coherence.sum", "GetSum()=%v, true sum %v of same-signed data: relative error %g > alpha %g", got, es.sum, math.Abs(got-es.sum)/math.Abs(es.sum), m.M.RelativeAccuracy())
		}
	}
	// iteration
	type vc struct{ v, w float64 }
	var seen []vc
	k.ForEach(func(v, w float64) bool { seen = append(seen, vc{v, w}); return false })
	total := 0.0
	dupe := map[float64]bool{}
	for _, e := range seen {
		if !(e.w > 0) {
			c.Failf("coherence.foreach.nonpositive", "ForEach yielded (%v, %v)", e.v, e.w)
		}
		if dupe[e.v] {
			c.Failf("coherence.foreach.dup", "ForEach yielded value %v twice", e.v)
		}
		dupe[e.v] = true
		total += e.w
	}
	if total != count {
		c.Failf("coherence.foreach.total", "ForEach weights sum to %v, count is %v", total, count)
	}
	nb := len(st.mdl.Pos.W) + len(st.mdl.Neg.W)
	if st.mdl.Zero != 0 {
		nb++
	}
	if !st.mdl.BinsUnknown && len(seen) != nb {
		c.Failf("coherence.foreach.bins", "ForEach yielded %d bins, the sketch holds %d non-empty bins", len(seen), nb)
	}
	// early stop: called exactly min(k, #bins) times
	ks := []int{1, 2, len(seen), len(seen) + 1}
	if len(seen) <= 12 {
		ks = ks[:0]
		for i := 1; i <= len(seen)+1; i++ {
			ks = append(ks, i)
		}
	} else {
		ks = append(ks, c.R.Range(1, len(seen)))
	}
	for _, kk := range ks {
		if kk < 1 {
			continue
		}
		calls := 0
		k.ForEach(func(v, w float64) bool { calls++; return calls >= kk })
		want := kk
		if len(seen) < want {
			want = len(seen)
		}
		c.Count("oracle.foreach_stop_checks", 1)
		if calls != want {
			c.Failf("coherence.foreach.stop", "ForEach with a callback stopping at call %d was called %d times (%d bins)", kk, calls, len(seen))
		}
	}
	if !st.mdl.BinsUnknown {
		mon.CheckSketchBins(c, "coherence", st.s, st.mdl)
	}
}

func runC12(c *core.Ctx) {
	r := c.R
	m := gen.RandMap(r, true)
	spec := gen.RandAnyStore(r)
	shapes := []string{"neg", "zeros", "zeros+neg", "single", "submin", "mixed", "mixed+zeros", "pos", "zeros+pos"}
	pattern := shapes[c.Index%len(shapes)]
	c.Count("shape."+pattern, 1)
	sigma := randSigmaIdx(r, 300)
	if spec.Collapsing() && r.P(0.6) {
		sigma = float64(spec.N) * []float64{0.5, 1, 3}[r.Intn(3)]
		if sigma > 3000 {
			sigma = 3000
		}
	}
	h := newHistGen(c, r, m, spec, pattern, sigma)
	exact := r.P(0.4)
	h.exact = exact
	h.anySpec = true
	h.weights[opReweight] = 2
	// identity conversions (equal mapping, scale 1) are copies by another name: part of the histories
	h.identityCM = true
	h.weights[opChangeMapping] = 1
	if r.P(0.4) {
		h.withCompanions()
		c.Count("histories_with_live_companions", 1)
	}
	nOps := r.Range(1, 50)
	checkEvery := 1
	if r.P(0.35) {
		// quiet history: most events are not followed by any query
		checkEvery = r.Range(2, 12)
		c.Count("quiet.histories", 1)
	}
	if c.Tier == "thorough" && c.Index%3000 == 5 {
		// soak: one long history on one sketch, coherence evaluated at checkpoints
		nOps = r.Range(5000, 20000)
		checkEvery = 211
		h.weights[opClear] = 0
		c.Count("soak.histories", 1)
		c.Count("soak.operations", nOps)
	}
	ops := h.gen(nOps)
	st := newSkState(c, "x", exact, m, spec)
	c.Logf("sketch exact=%v mapping %s store %s shape %s", exact, m.Desc, spec, pattern)
	c.SigS(m.Desc)
	c.SigS(spec.String())
	c.SigS(pattern)
	mergeOrDecode := false
	for oi, op := range ops {
		c.SigI(op.kind)
		c.SigF(op.v)
		c.SigF(op.w)
		if !st.apply(op) {
			return
		}
		if op.kind == opMerge || op.kind == opDecodeMerge || op.kind == opRoundTrip {
			mergeOrDecode = true
		}
		if r.P(0.06) {
			// a refused call in between: it must absorb nothing and leave every summary coherent
			k := st.s.I()
			var err error
			what := ""
			c.Guard("refused call", func() {
				switch r.Intn(4) {
				case 0:
					what, err = "Reweight(0)", k.Reweight(0)
				case 1:
					what, err = "Reweight(-2)", k.Reweight(-2)
				case 2:
					what, err = "Add(NaN)", k.Add(math.NaN())
				default:
					what, err = "AddWithCount(1, -1)", k.AddWithCount(st.m.ClampIn(1), -1)
				}
			})
			c.Logf("refused call %s -> %v", what, err)
			c.Count("event.refused_call", 1)
			if err == nil {
				c.Failf("coherence.refused_call_accepted", "%s returned no error", what)
			}
		}
		if r.P(0.04) {
			// a well-formed payload holding only zero counts: absorbs nothing
			idx := 0
			if ks := st.mdl.Pos.Keys(); len(ks) > 0 {
				idx = ks[r.Intn(len(ks))] + r.Range(-40, 40)
			}
			zb := wire.Block{Flag: wire.Flag(wire.TypePositive, wire.SubBinsContiguous), First: int64(idx), Stride: 1, Counts: make([]float64, r.Range(1, 40))}
			if r.Bool() {
				zb.Flag = wire.Flag(wire.TypeNegative, wire.SubBinsContiguous)
				if ks := st.mdl.Neg.Keys(); len(ks) > 0 {
					zb.First = int64(ks[r.Intn(len(ks))] + r.Range(-40, 40))
				}
			}
			payload := wire.Emit([]wire.Block{zb})
			var err error
			c.Guard("DecodeAndMergeWith(zero block)", func() { err = st.s.I().DecodeAndMergeWith(payload) })
			c.Logf("DecodeAndMergeWith(contiguous block of %d zero counts at %d) -> %v", len(zb.Counts), zb.First, err)
			c.Count("event.decode_zero_block", 1)
			if err != nil {
				c.Failf("coherence.zero_block_rejected", "decoding a well-formed block of zero counts returned %v", err)
			}
		}
		if checkEvery > 1 && oi%checkEvery != 0 && oi != len(ops)-1 {
			continue
		}
		for _, l := range st.live() {
			checkCoherence(c, l)
		}
		if c.Failed() {
			return
		}
	}
	special := pattern != "mixed" && pattern != "pos" && pattern != "mixed+zeros" && pattern != "zeros+pos"
	if special || mergeOrDecode {
		c.NonTrivial()
		c.Sample(map[string]interface{}{"exact": exact, "mapping": m.Desc, "store": spec.String(), "shape": pattern, "first_ops": opStrings(ops, 6)})
	}
}

// ---------- C16 ----------

func runC16(c *core.Ctx) {
	r := c.R
	m := gen.RandMap(r, true)
	spec := gen.RandAnyStore(r)
	if c.Index%3 == 0 {
		spec = gen.StoreSpec{Kind: gen.SPaginated}
	}
	pattern := []string{"mixed", "mixed+zeros", "mixed", "pos", "neg", "zeros+neg"}[r.Intn(6)]
	h := newHistGen(c, r, m, spec, pattern, randSigmaIdx(r, 300))
	exact := r.Bool()
	h.exact = exact
	h.anySpec = false // arguments must not fold on their own, else the scaled-adds twin is not comparable
	h.sameTarget = true
	h.weights[opReweight] = 0
	h.weights[opClear] = 1
	h.weights[opRoundTrip] = 1
	h.weights[opProtoRoundTrip] = 0
	// identity conversions (equal mapping, scale 1) are exact copies: part of the histories
	h.identityCM = true
	h.weights[opChangeMapping] = 2
	if r.P(0.4) {
		h.withCompanions()
		h.weights[opCompReweight] = 3
		c.Count("histories_with_live_companions", 1)
	}
	if spec.Kind == gen.SPaginated {
		// make sure both buffered unit entries and pages exist: many unit adds in few bins plus weighted adds
		h.weights[opAdd] = 60
	}
	n := r.Range(1, 60)
	if spec.Kind == gen.SPaginated && r.P(0.5) {
		n = r.Range(80, 200)
	}
	ops := h.gen(n)
	st := newSkState(c, "x", exact, m, spec)
	c.Logf("sketch exact=%v mapping %s store %s", exact, m.Desc, spec)
	c.SigS(m.Desc)
	c.SigS(spec.String())
	for _, op := range ops {
		c.SigI(op.kind)
		c.SigF(op.v)
		c.SigF(op.w)
		if !st.apply(op) {
			return
		}
	}
	// the factor
	var f float64
	switch c.Index % 5 {
	case 0:
		f = 1
	case 1:
		// a factor within 2^-10..2^-31 of one: still a reweighting
		f = h.budget.NearOneFactor(r)
		if f != 0 {
			c.Count("reweight.near_one", 1)
			break
		}
		fallthrough
	default:
		for try := 0; try < 20 && (f == 0 || f == 1); try++ {
			f = h.budget.Factor(r)
		}
		if f == 0 {
			f = 1
		}
	}
	c.SigF(f)
	switch {
	case f < 1:
		c.Count("reweight.lt1", 1)
	case f > 1:
		c.Count("reweight.gt1", 1)
	default:
		c.Count("reweight.eq1", 1)
	}
	both := !st.mdl.Pos.Empty() && !st.mdl.Neg.Empty()
	if both {
		c.Count("reweight.both_sides", 1)
	}
	before := statsOf(st.mdl.Items)
	// Reweight through a MonStore-like layout observation on both stores
	lp := layoutOf(st.s.I().GetPositiveValueStore())
	ln := layoutOf(st.s.I().GetNegativeValueStore())
	if (lp.Kind == "paginated" && lp.BufferLen > 0 && lp.AllocatedPages > 0) || (ln.Kind == "paginated" && ln.BufferLen > 0 && ln.AllocatedPages > 0) {
		c.Count("layout.reweight_with_buffer_and_pages", 1)
	}
	if exact && spec.Kind == gen.SSparse && f > 1 && r.P(0.3) && !st.mdl.EverFolded() {
		// an exact sum that leaves the float64 range at the reweighting: one more item of the sign the sketch already
		// has (or any, when it is empty) close to the largest indexable value
		es := statsOf(st.mdl.Items)
		if es.n == 0 || es.min >= 0 || es.max <= 0 {
			v := m.Max / 3
			if v > math.MaxFloat64/3 {
				v = math.MaxFloat64 / 3
			}
			if es.n > 0 && es.max <= 0 && es.min < 0 {
				v = -v
			}
			if h.budget.Charge(4) && st.apply(skOp{kind: opAddW, v: v, w: 2}) {
				c.Count("reweight.sum_leaves_float64_range", 1)
			}
			if c.Failed() {
				return
			}
		}
	}
	if r.P(0.3) {
		// a refused call right before: it changes nothing, and the reweighting that follows starts from the same state
		var rerr error
		bad := []float64{0, -1, -0.5, math.Inf(-1)}[r.Intn(4)]
		if c.Guard("Reweight(refused)", func() { rerr = st.s.I().Reweight(bad) }) {
			return
		}
		c.Count("reweight.after_a_refused_reweight", 1)
		if rerr == nil {
			c.Failf("reweight.accepted_invalid", "Reweight(%v) returned no error", bad)
			return
		}
	}
	if r.P(0.7) {
		// queried before the call (reads reorganise stores; what they leave behind must not outlive the reweighting)
		c.Guard("query before Reweight", func() { mon.Observe(st.s, nil); st.s.I().GetSum() })
		c.Count("reweight.after_a_query", 1)
	}
	before = statsOf(st.mdl.Items)
	if !st.apply(skOp{kind: opReweight, w: f}) {
		return
	}
	c.Count("oracle.reweight_checks", 1)
	mon.CheckSketchBins(c, "reweight", st.s, st.mdl)
	for _, l := range st.comps {
		// copies that stayed in use (and were reweighted on their own) are not touched by this sketch's reweighting
		c.Count("oracle.companion_checks", 1)
		mon.CheckSketchBins(c, "companion_after_reweight", l.s, l.mdl)
	}
	if exact {
		checkExactStats(c, st)
		after := statsOf(st.mdl.Items)
		if before.n > 0 && (after.min != before.min || after.max != before.max) {
			c.Failf("reweight.model", "internal: model extremes changed")
		}
		mn, _ := st.s.I().GetMinValue()
		mx, _ := st.s.I().GetMaxValue()
		if before.n > 0 && (mn != before.min || mx != before.max) {
			c.Failf("reweight.extremes", "exact min/max changed by Reweight(%v): [%v,%v] -> [%v,%v]", f, before.min, before.max, mn, mx)
		}
	}
	if c.Failed() {
		return
	}
	// a second real sketch built by adding the same items with weights*w (same store spec)
	twin := mon.NewSketch(exact, st.m.M, st.spec)
	// feed through a fold-consistent order: the model's own items in absorption order
	ok := true
	c.Guard("twin", func() {
		for _, it := range st.mdl.Items {
			// Items already carry scaled weights
			if err := twin.I().AddWithCount(it.V, it.W); err != nil {
				c.Failf("twin.add", "AddWithCount(%v,%v): %v", it.V, it.W, err)
				ok = false
				return
			}
		}
	})
	if !ok || c.Failed() {
		return
	}
	c.Count("oracle.rebuilt_twin_checks", 1)
	got := mon.Observe(st.s, nil)
	want := mon.Observe(twin, nil)
	// the exact sum of the twin is accumulated in another order: compare it by bound (done above), not bitwise
	got.HasSum, want.HasSum = false, false
	// the approximate sum of the plain variant depends on the order in which a store is walked: compared with the
	// twin's within a relative 1e-9 of the total of |value*weight| instead of bit for bit
	sumsAgree := func(when string) {
		if exact {
			return
		}
		abs := 2 * statsOf(st.mdl.Items).absSum
		gs, ws := st.s.I().GetSum(), twin.I().GetSum()
		c.Count("oracle.plain_sum_vs_twin", 1)
		if gs != ws && abs < math.MaxFloat64/1024 && !(math.Abs(gs-ws) <= 1e-9*abs+1e-300) {
			c.Failf("reweight.sum_differs_from_scaled_adds", "%s Reweight(%v): GetSum()=%v, the sketch built with scaled weights reports %v", when, f, gs, ws)
		}
	}
	sumsAgree("right after")
	if d := want.Diff(got); d != "" {
		c.Failf("reweight.differs_from_scaled_adds", "after Reweight(%v) the sketch differs from one built by adding the same items with scaled weights (built vs reweighted): %s", f, d)
	}
	// "the content of a sketch to which the same values had been added with scaled weights" also means behaving
	// like that sketch from now on: both absorb the same further additions (a few, so that they stay among what
	// a store still holds as unit entries; often in descending order) and are compared again
	if r.P(0.6) && !c.Failed() {
		for k := range h.weights {
			h.weights[k] = 0
		}
		h.weights[opAdd], h.weights[opAddW] = 8, 1
		more := h.gen(r.Range(1, 10))
		if r.Bool() {
			sort.Slice(more, func(i, j int) bool { return more[i].v > more[j].v })
		}
		okTwin := true
		for _, op := range more {
			c.SigF(op.v)
			c.SigF(op.w)
			if !st.apply(op) {
				return
			}
			op := op
			c.Guard("twin", func() {
				if err := twin.I().AddWithCount(op.v, op.w); err != nil {
					okTwin = false
				}
			})
		}
		if c.Failed() || !okTwin {
			return
		}
		c.Count("oracle.continued_after_reweight", 1)
		if exact {
			checkExactStats(c, st)
		}
		sumsAgree("after further additions following")
		got := mon.Observe(st.s, nil)
		want := mon.Observe(twin, nil)
		got.HasSum, want.HasSum = false, false
		if d := want.Diff(got); d != "" {
			c.Failf("reweight.differs_from_scaled_adds_later", "after Reweight(%v) and %d further additions the sketch differs from one built by adding everything with scaled weights (built vs reweighted): %s", f, len(more), d)
		}
	}
	if both && f != 1 {
		c.NonTrivial()
		c.Sample(map[string]interface{}{"exact": exact, "mapping": m.Desc, "store": spec.String(), "factor": f, "ops_before": len(ops)})
	}
}
