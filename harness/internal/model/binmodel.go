// Package model holds the shadow models the monitors compare the library
// against: the mathematical index->weight map (optionally folded as a
// collapsing store must), and the multiset of absorbed values.
package model

import (
	"sort"
)

// Fold modes.
const (
	NoFold = iota
	FoldLowest
	FoldHighest
)

// Bins is the mathematical map from index to accumulated weight. Weights are
// float64 but the workload keeps them dyadic under an exactness budget, so all
// arithmetic here (and in a correct implementation) is exact.
//
// With Fold != NoFold it is the content a collapsing store with limit N must
// hold: every index beyond the collapsing edge (max-N+1 resp. min+N-1, where
// max/min is the extreme index absorbed since the last Clear) folded into the
// edge bin. Since the edge only moves one way, folding after every mutation
// equals folding at the end, whatever the order in which a merge delivers bins.
type Bins struct {
	W    map[int]float64
	Fold int
	N    int
	// extreme index absorbed since the last clear (for folding)
	hasExt bool
	ext    int
	Folded bool // some weight has been folded since the last Clear
}

func NewBins() *Bins { return &Bins{W: map[int]float64{}} }

func NewFold(mode, n int) *Bins { return &Bins{W: map[int]float64{}, Fold: mode, N: n} }

func (b *Bins) Clone() *Bins {
	c := &Bins{W: make(map[int]float64, len(b.W)), Fold: b.Fold, N: b.N, hasExt: b.hasExt, ext: b.ext, Folded: b.Folded}
	for k, v := range b.W {
		c.W[k] = v
	}
	return c
}

// Edge returns the collapsing edge, if the model is folding and non-empty.
func (b *Bins) Edge() (int, bool) {
	if b.Fold == NoFold || !b.hasExt {
		return 0, false
	}
	if b.Fold == FoldLowest {
		return b.ext - b.N + 1, true
	}
	return b.ext + b.N - 1, true
}

func (b *Bins) Add(index int, w float64) {
	if w == 0 {
		return
	}
	switch b.Fold {
	case FoldLowest:
		if !b.hasExt || index > b.ext {
			b.hasExt, b.ext = true, index
			b.refold()
		}
		if e := b.ext - b.N + 1; index < e {
			index = e
			b.Folded = true
		}
	case FoldHighest:
		if !b.hasExt || index < b.ext {
			b.hasExt, b.ext = true, index
			b.refold()
		}
		if e := b.ext + b.N - 1; index > e {
			index = e
			b.Folded = true
		}
	}
	b.W[index] += w
}

func (b *Bins) refold() {
	if b.Fold == FoldLowest {
		e := b.ext - b.N + 1
		for k, v := range b.W {
			if k < e {
				delete(b.W, k)
				b.W[e] += v
				b.Folded = true
			}
		}
	} else if b.Fold == FoldHighest {
		e := b.ext + b.N - 1
		for k, v := range b.W {
			if k > e {
				delete(b.W, k)
				b.W[e] += v
				b.Folded = true
			}
		}
	}
}

// Merge adds every bin of o (the content o represents, already folded by o's own rule).
func (b *Bins) Merge(o *Bins) {
	keys := o.Keys()
	// For folding models, feed the extreme first so that the edge is final
	// before weights are placed (any order gives the same result; this one avoids refolds).
	for _, k := range keys {
		b.Add(k, o.W[k])
	}
}

func (b *Bins) Scale(f float64) {
	for k := range b.W {
		b.W[k] *= f
	}
}

func (b *Bins) Clear() {
	b.W = map[int]float64{}
	b.hasExt = false
	b.ext = 0
	b.Folded = false
}

func (b *Bins) Keys() []int {
	keys := make([]int, 0, len(b.W))
	for k := range b.W {
		keys = append(keys, k)
	}
	sort.Ints(keys)
	return keys
}

func (b *Bins) Total() float64 {
	t := 0.0
	for _, k := range b.Keys() {
		t += b.W[k]
	}
	return t
}

func (b *Bins) Empty() bool { return len(b.W) == 0 }

func (b *Bins) Min() (int, bool) {
	if len(b.W) == 0 {
		return 0, false
	}
	ks := b.Keys()
	return ks[0], true
}

func (b *Bins) Max() (int, bool) {
	if len(b.W) == 0 {
		return 0, false
	}
	ks := b.Keys()
	return ks[len(ks)-1], true
}

// Span returns max-min+1 (0 when empty).
func (b *Bins) Span() int {
	if len(b.W) == 0 {
		return 0
	}
	ks := b.Keys()
	return ks[len(ks)-1] - ks[0] + 1
}

// KeyAtRank is the first index whose cumulative weight exceeds rank, clamped at both ends.
// Undefined (ok=false) on an empty map.
func (b *Bins) KeyAtRank(rank float64) (int, bool) {
	ks := b.Keys()
	if len(ks) == 0 {
		return 0, false
	}
	cum := 0.0
	for _, k := range ks {
		cum += b.W[k]
		if cum > rank {
			return k, true
		}
	}
	return ks[len(ks)-1], true
}

// SpanIfAdded returns the index span the map would have after adding index.
func (b *Bins) SpanIfAdded(index int) int {
	if len(b.W) == 0 {
		return 1
	}
	ks := b.Keys()
	lo, hi := ks[0], ks[len(ks)-1]
	if index < lo {
		lo = index
	}
	if index > hi {
		hi = index
	}
	return hi - lo + 1
}
