package props

import (
	"bytes"
	"math"
	"sort"

	"github.com/DataDog/sketches-go/dataset"
	"github.com/DataDog/sketches-go/ddsketch"
	enc "github.com/DataDog/sketches-go/ddsketch/encoding"
	"github.com/DataDog/sketches-go/ddsketch/mapping"
	"github.com/DataDog/sketches-go/ddsketch/pb/sketchpb"
	"github.com/DataDog/sketches-go/ddsketch/store"
	"google.golang.org/protobuf/proto"

	"verif/harness/internal/core"
	"verif/harness/internal/gen"
	"verif/harness/internal/rng"
	"verif/harness/internal/wire"
)

func init() {
	core.Register(&core.Prop{
		ID:    "C03",
		Level: "exploration",
		Rule: "case = one mapping (kind x alpha from grid or log-uniform in [1e-6,0.99] x offset regime {default, fractional, +-1e4..1e6, +-1e8..1.5e9}, built from alpha or from (gamma, offset) as decoders do - for 30% of those literally by mapping.Decode of a block written by the reference encoder, sometimes right after a block of another kind with the same base and offset; one case in five uses round parameters: gamma a power/root of two or 1+2^-k with integer, half-integer or 1/log2(gamma) offsets, so that bin bounds fall exactly on binade boundaries) probed at ~1500 values: computed bin lower bounds +-{0..8,16,64,256,1024,4096} ulps for bins across the whole indexable range, " +
			"binade boundaries 2^e +-k ulps, both range ends and neighbours; probes visited in increasing order. Oracle: |Value(Index v)-v| <= (alpha+64u)v; Index non-decreasing; LowerBound(i)(1-64u) <= v <= LowerBound(i+1)(1+64u); index within int32; |RelativeAccuracy-alpha| <= 2^-50; Min<Max. " +
			"Non-trivial = >=1 probe within 8 ulps of a bin edge, a binade boundary and a range end; distinct = hash of (mapping, probes).",
		Cases:     core.Scale(80000, 2000000),
		Mandatory: []string{"oracle.probes", "probe.edge", "probe.binade", "probe.range_end", "oracle.monotone_adjacent_floats", "mapping.from_gamma_offset", "mapping.offset_regime_3", "mapping.round_gamma_and_offset", "mapping.built_by_the_decoder"},
		Assumptions: []string{
			"slack 64*u(v), u(v) = 2^-52 (1 + |ln v| + (|Index v| + |offset|) * 2 atanh(alpha)): a few ulps in the index/log domain, calibrated at <= 6u on the unchanged tree",
			"LowerBound(i+1) is only required while bin i+1 is itself indexable",
		},
		Run: runC03,
	})
	core.Register(&core.Prop{
		ID:    "C19",
		Level: "exploration",
		Rule: "case = one mapping of the C03 grid (incl. non-default offsets) plus a second one: binary Encode->Decode, ToProto->Marshal->Unmarshal->FromProto and EncodeProto->Unmarshal->FromProto must give mappings that are Equals both ways and agree bitwise on Index (300 probes), Value, LowerBound, RelativeAccuracy, Min/MaxIndexableValue; " +
			"mapping from alpha Equals mapping from its (gamma, offset); Equals reflexive and symmetric on the pair; different kinds never equal; same kind with alpha >= 0.1% apart (or offsets apart) never equal. Non-trivial = non-default offset or pair of same kind with close parameters; distinct = hash of both mappings.",
		Cases:     core.Scale(120000, 3000000),
		Mandatory: []string{"oracle.binary_roundtrips", "oracle.proto_roundtrips", "oracle.stream_proto_roundtrips", "oracle.inequalities.kind", "oracle.inequalities.alpha", "oracle.inequalities.offset", "oracle.probe_agreements", "oracle.accuracy_vs_base_and_offset", "oracle.near_twin_pairs", "oracle.gate_checks", "oracle.message_is_a_value", "oracle.second_mapping_roundtrips", "second_mapping.same_base_and_offset_other_kind", "oracle.near_twin_roundtrips", "near_twins.equal_within_tolerance", "near_twins.zero_offset_vs_tiny_offset"},
		Run:       runC19,
	})
	core.Register(&core.Prop{
		ID:    "C20",
		Level: "exploration",
		Rule: "case = interleaved history of Add, queries and Merge on dataset.Dataset (duplicates, negatives, unsorted arrival, additions after queries, merges of two datasets - also a dataset with itself and the same argument twice), reference = the harness's own sorted copy; Lower/UpperQuantile must equal the order statistic at floor/ceil of q(n-1) " +
			"(rank accepted both as the float product and as the exact product), Quantile == lower, NaN when empty or q outside [0,1], Min/Max/Count exact, Sum within the compensated-sum bound, Merge == adding all values; besides whole checkpoints (all queries in a fixed order) the history holds single queries (one of Sum/Count/Lower/Upper/Quantile/Min/Max, q drawn from a few values reused during the case) answered on their own right after additions, and a quarter of the cases draw every value from 2-4 distinct values. Non-trivial = history with an addition after a query and a merge; distinct = hash of the history.",
		Cases:       core.Scale(120000, 3000000),
		Mandatory:   []string{"oracle.quantile_checks", "event.add_after_query", "event.merge", "oracle.nan_checks", "oracle.sum_checks", "oracle.minmax_before_quantile_queries", "sign_mode.all_negative", "adversarial_sum_cases", "oracle.single_query_checks", "small_pool_cases", "event.merge_with_itself_after_query", "huge_value_cases", "oracle.sum_checks.overflowed_same_sign"},
		Assumptions: []string{"q = NaN is outside the stated domain and not sent"},
		Run:         runC20,
	})
}

// ---------- C03 ----------

func runC03(c *core.Ctx) {
	r := c.R
	// mapping: spread offset regimes evenly
	var m *gen.Map
	regime := c.Index % 5
	fromGamma := false
	if regime == 4 {
		m = gen.RoundMap(r, r.Intn(3))
		fromGamma = true
		c.Count("mapping.round_gamma_and_offset", 1)
	}
	for m == nil {
		kind := r.Intn(3)
		alpha := gen.RandAlpha(r)
		base, err := gen.NewMap(kind, alpha)
		if err != nil {
			c.Failf("constructor", "mapping constructor kind %d alpha %v: %v", kind, alpha, err)
			return
		}
		if regime == 0 && r.Bool() {
			m = base
		} else {
			off := base.Offset
			if regime != 0 {
				off = gen.RandOffset(r, regime)
			}
			mm, err := gen.NewMapGamma(kind, base.Gamma, off)
			if err != nil {
				c.Failf("constructor", "WithGamma(%v,%v): %v", base.Gamma, off, err)
				return
			}
			mm.Alpha = alpha
			m = mm
			fromGamma = true
		}
		if !(m.Min < m.Max) || m.IMax-m.IMin < 8 {
			// the offset leaves no usable index range: not a mapping anyone can use
			m = nil
			c.Count("mapping.degenerate_skipped", 1)
		}
	}
	if fromGamma && r.P(0.3) {
		// "as decoders do" taken literally: the mapping is the one the library's decoder builds from a mapping block
		// written by the reference encoder; right before it, a mapping of another kind with the very same base and
		// offset is decoded in the same process (a decoder has no business remembering it)
		mapSub := []byte{wire.SubMapLog, wire.SubMapLinear, wire.SubMapCubic}
		dec := func(kind int) mapping.IndexMapping {
			blk := wire.Block{Flag: wire.Flag(wire.TypeMapping, mapSub[kind]), Gamma: m.Gamma, Offset: m.Offset}
			b := wire.EmitBlock(nil, &blk)
			flag, err := enc.DecodeFlag(&b)
			if err != nil {
				return nil
			}
			dm, err := mapping.Decode(&b, flag)
			if err != nil || len(b) != 0 {
				return nil
			}
			return dm
		}
		var dm mapping.IndexMapping
		if c.Guard("mapping.Decode", func() {
			if r.Bool() {
				dec((m.Kind + 1 + r.Intn(2)) % 3)
			}
			dm = dec(m.Kind)
		}) {
			return
		}
		if dm == nil || kindOfMapping(dm) != m.Kind {
			c.Failf("decoded.kind", "the mapping block of %s decodes to %T", m.Desc, dm)
			return
		}
		m.M = dm
		if m.Min != dm.MinIndexableValue() || m.Max != dm.MaxIndexableValue() {
			c.Failf("decoded.range", "the decoded %s reports the indexable range [%v,%v], the constructor [%v,%v]", m.Desc, dm.MinIndexableValue(), dm.MaxIndexableValue(), m.Min, m.Max)
			return
		}
		c.Count("mapping.built_by_the_decoder", 1)
	}
	if fromGamma {
		c.Count("mapping.from_gamma_offset", 1)
	}
	c.Count("mapping.offset_regime_"+itoa(regime), 1)
	c.Count("mapping."+m.KindName(), 1)
	c.Logf("mapping %s requested alpha %v: min %v max %v index range [%d,%d]", m.Desc, m.Alpha, m.Min, m.Max, m.IMin, m.IMax)
	c.SigS(m.Desc)

	if ra := m.M.RelativeAccuracy(); math.Abs(ra-m.Alpha) > 0x1p-50 {
		c.Failf("reported_accuracy", "RelativeAccuracy()=%v differs from the accuracy %v the mapping was built with", ra, m.Alpha)
	}
	if !(m.Min < m.Max) || !(m.Min > 0) {
		c.Failf("range", "MinIndexableValue %v / MaxIndexableValue %v", m.Min, m.Max)
		return
	}

	type probe struct {
		v     float64
		class string
	}
	var ps []probe
	add := func(v float64, class string) {
		if v >= m.Min && v <= m.Max {
			ps = append(ps, probe{v, class})
		}
	}
	// bins across the range
	for b := 0; b < 40; b++ {
		var i int
		switch r.Pick(4, 3, 1, 1) {
		case 0:
			i = m.M.Index(r.LogUniform(1e-6, 1e9))
		case 1:
			i = m.M.Index(r.LogUniform(math.Max(m.Min, 1e-300), math.Min(m.Max, 1e300)))
		case 2:
			i = m.IMin + r.Range(0, 4)
		default:
			i = m.IMax - r.Range(0, 4)
		}
		if i <= m.IMin || i > m.IMax {
			continue
		}
		var lb float64
		if c.Guard("LowerBound", func() { lb = m.M.LowerBound(i) }) {
			return
		}
		if !(lb > 0) || math.IsInf(lb, 0) {
			c.Failf("LowerBound.not_finite", "LowerBound(%d)=%v for an indexable bin (range [%d,%d]) of %s", i, lb, m.IMin, m.IMax, m.Desc)
			return
		}
		for _, k := range []int{0, 1, 2, 3, 4, 5, 6, 7, 8, 16, 64, 256, 1024, 4096} {
			cl := "near_edge"
			if k <= 8 {
				cl = "edge"
			}
			add(gen.Ulps(lb, k), cl)
			add(gen.Ulps(lb, -k), cl)
		}
	}
	// binade boundaries
	for b := 0; b < 12; b++ {
		e := r.Range(-1021, 1022)
		if r.Bool() {
			e = r.Range(-40, 40)
		}
		p := math.Ldexp(1, e)
		for _, k := range []int{0, 1, 2, 3, 8, 100} {
			add(gen.Ulps(p, k), "binade")
			add(gen.Ulps(p, -k), "binade")
		}
	}
	// range ends
	for k := 0; k < 12; k++ {
		add(gen.Ulps(m.Min, k), "range_end")
		add(gen.Ulps(m.Max, -k), "range_end")
	}
	for k := 0; k < 6; k++ {
		add(gen.Ulps(m.Min, r.Range(12, 1<<20)), "range_end")
		add(gen.Ulps(m.Max, -r.Range(12, 1<<20)), "range_end")
	}
	// random interior values
	for k := 0; k < 50; k++ {
		add(r.LogUniform(math.Max(m.Min, 1e-300), math.Min(m.Max, 1e300)), "random")
	}
	sort.Slice(ps, func(i, j int) bool { return ps[i].v < ps[j].v })

	alpha := m.M.RelativeAccuracy()
	prevIdx := 0
	prevV := 0.0
	classes := map[string]bool{}
	worstAcc, worstCont := 0.0, 0.0
	for pi, p := range ps {
		v := p.v
		c.SigF(v)
		var idx int
		var val, lb, lbn float64
		if c.Guard("Index/Value/LowerBound", func() {
			idx = m.M.Index(v)
			val = m.M.Value(idx)
			lb = m.M.LowerBound(idx)
			if idx+1 <= m.IMax {
				lbn = m.M.LowerBound(idx + 1)
			}
		}) {
			return
		}
		c.Count("oracle.probes", 1)
		c.Count("probe."+p.class, 1)
		classes[p.class] = true
		u := m.U(v)
		slack := 64 * u
		if idx > math.MaxInt32 || idx < math.MinInt32 {
			c.Failf("int32", "Index(%v)=%d does not fit in 32 bits (%s)", v, idx, m.Desc)
			return
		}
		if pi > 0 {
			if idx < prevIdx {
				c.Failf("monotone", "Index decreases: Index(%v)=%d but Index(%v)=%d (%s)", prevV, prevIdx, v, idx, m.Desc)
				return
			}
			if gen.Ulps(prevV, 1) == v {
				c.Count("oracle.monotone_adjacent_floats", 1)
			}
		}
		prevIdx, prevV = idx, v
		acc := math.Abs(val-v)/v - alpha
		if acc/u > worstAcc {
			worstAcc = acc / u
		}
		if !(acc <= slack) {
			c.Failf("accuracy", "|Value(Index(v))-v|/v = %v exceeds alpha=%v by %g units of u (v=%v index=%d value=%v, %s)", math.Abs(val-v)/v, alpha, acc/u, v, idx, val, m.Desc)
			return
		}
		if !(lb*(1-slack) <= v) {
			c.Failf("containment.lower", "v=%v lies below LowerBound(Index(v)=%d)=%v by more than the slack (%s)", v, idx, lb, m.Desc)
			return
		}
		if e := (lb - v) / v / u; e > worstCont {
			worstCont = e
		}
		if idx+1 <= m.IMax {
			if !(lbn > 0) || math.IsInf(lbn, 0) {
				c.Failf("LowerBound.not_finite", "LowerBound(%d)=%v for an indexable bin of %s", idx+1, lbn, m.Desc)
				return
			}
			if !(v <= lbn*(1+slack)) {
				c.Failf("containment.upper", "v=%v lies above LowerBound(Index(v)+1=%d)=%v by more than the slack (%s)", v, idx+1, lbn, m.Desc)
				return
			}
			if e := (v - lbn) / v / u; e > worstCont {
				worstCont = e
			}
		}
		if !(val > 0) || math.IsInf(val, 0) {
			c.Failf("Value.not_finite", "Value(%d)=%v (%s)", idx, val, m.Desc)
			return
		}
	}
	c.Max("accuracy_excess_in_units_of_u", worstAcc)
	c.Max("containment_excess_in_units_of_u", worstCont)
	if classes["edge"] && classes["binade"] && classes["range_end"] {
		c.NonTrivial()
		c.Sample(map[string]interface{}{"mapping": m.Desc, "probes": len(ps), "index_range": []int{m.IMin, m.IMax}, "worst_accuracy_excess_u": worstAcc})
	}
}

// ---------- C19 ----------

func agree(c *core.Ctx, how string, a, b *gen.Map, r *rng.Rng) {
	if !a.M.Equals(b.M) || !b.M.Equals(a.M) {
		c.Failf("roundtrip.not_equal:"+how, "%s: mapping %s read back as %s is not Equals (a.Equals(b)=%v, b.Equals(a)=%v)", how, a.Desc, b.Desc, a.M.Equals(b.M), b.M.Equals(a.M))
		return
	}
	if a.Gamma != b.Gamma || a.Offset != b.Offset || a.Kind != b.Kind {
		c.Failf("roundtrip.parameters:"+how, "%s: %s came back as %s", how, a.Desc, b.Desc)
		return
	}
	bitsEq := func(x, y float64) bool { return math.Float64bits(x) == math.Float64bits(y) }
	if !bitsEq(a.M.RelativeAccuracy(), b.M.RelativeAccuracy()) || !bitsEq(a.Min, b.Min) || !bitsEq(a.Max, b.Max) {
		c.Failf("roundtrip.scalars:"+how, "%s: accuracy/min/max differ: %v/%v/%v vs %v/%v/%v", how, a.M.RelativeAccuracy(), a.Min, a.Max, b.M.RelativeAccuracy(), b.Min, b.Max)
	}
	for i := 0; i < 300; i++ {
		var v float64
		if i%3 == 0 {
			v, _ = a.EdgeValue(r, a.RandCentreIndex(r), 100)
		} else {
			v = r.LogUniform(math.Max(a.Min, 1e-300), math.Min(a.Max, 1e300))
		}
		ia, ib := a.M.Index(v), b.M.Index(v)
		if ia != ib {
			c.Failf("roundtrip.index:"+how, "%s: Index(%v) = %d vs %d after the round trip of %s", how, v, ia, ib, a.Desc)
			return
		}
		if ia > a.IMin && ia < a.IMax {
			if !bitsEq(a.M.Value(ia), b.M.Value(ia)) || !bitsEq(a.M.LowerBound(ia), b.M.LowerBound(ia)) {
				c.Failf("roundtrip.value:"+how, "%s: Value/LowerBound(%d) differ after the round trip of %s", how, ia, a.Desc)
				return
			}
		}
		c.Count("oracle.probe_agreements", 1)
	}
}

func kindOfMapping(im mapping.IndexMapping) int {
	switch im.(type) {
	case *mapping.LogarithmicMapping:
		return gen.KLog
	case *mapping.LinearlyInterpolatedMapping:
		return gen.KLin
	case *mapping.CubicallyInterpolatedMapping:
		return gen.KCub
	}
	return -1
}

func wrapDecoded(im mapping.IndexMapping) *gen.Map {
	k := kindOfMapping(im)
	if k < 0 {
		return nil
	}
	pb := im.ToProto()
	m, err := gen.NewMapGamma(k, pb.Gamma, pb.IndexOffset)
	if err != nil {
		return nil
	}
	m.M = im
	m.Min, m.Max = im.MinIndexableValue(), im.MaxIndexableValue()
	return m
}

func runC19(c *core.Ctx) {
	r := c.R
	a := gen.RandMap(r, false)
	c.SigS(a.Desc)
	c.Logf("mapping A %s", a.Desc)

	// binary form
	c.Guard("binary", func() {
		prefix := []byte{0xde, 0xad}[:r.Intn(3)]
		b := append([]byte{}, prefix...)
		a.M.Encode(&b)
		if !bytes.HasPrefix(b, prefix) {
			c.Failf("binary.clobbers_prefix", "mapping Encode overwrote the buffer prefix")
			return
		}
		rest := b[len(prefix):]
		trailer := []byte{1, 2, 3}[:r.Intn(4)]
		rest = append(rest, trailer...)
		flag, err := enc.DecodeFlag(&rest)
		if err != nil {
			c.Failf("binary.flag", "DecodeFlag: %v", err)
			return
		}
		if flag.Type() != enc.FlagTypeIndexMapping {
			c.Failf("binary.flagtype", "mapping encoded with flag type %v", flag.Type())
			return
		}
		dm, err := mapping.Decode(&rest, flag)
		if err != nil || dm == nil {
			c.Failf("binary.decode", "mapping.Decode of the encoding of %s: %v", a.Desc, err)
			return
		}
		if !bytes.Equal(rest, trailer) {
			c.Failf("binary.framing", "mapping.Decode left %d bytes, expected the %d trailing ones", len(rest), len(trailer))
		}
		w := wrapDecoded(dm)
		if w == nil {
			c.Failf("binary.kind", "decoded mapping has an unexpected type %T", dm)
			return
		}
		c.Count("oracle.binary_roundtrips", 1)
		agree(c, "binary", a, w, r)
	})
	// protobuf message form
	c.Guard("proto", func() {
		raw, err := proto.Marshal(a.M.ToProto())
		if err != nil {
			c.Failf("proto.marshal", "%v", err)
			return
		}
		var pb sketchpb.IndexMapping
		if err := proto.Unmarshal(raw, &pb); err != nil {
			c.Failf("proto.unmarshal", "%v", err)
			return
		}
		dm, err := mapping.FromProto(&pb)
		if err != nil || dm == nil {
			c.Failf("proto.fromproto", "FromProto(%v): %v", &pb, err)
			return
		}
		w := wrapDecoded(dm)
		if w == nil {
			c.Failf("proto.kind", "FromProto returned %T", dm)
			return
		}
		c.Count("oracle.proto_roundtrips", 1)
		agree(c, "proto", a, w, r)
		// a message is a value: whatever its receiver does with it (edit, recycle by unmarshalling something else
		// into it), the mapping keeps describing itself
		msg := a.M.ToProto()
		msg.Gamma += 1
		msg.IndexOffset += 10
		msg.Interpolation = (msg.Interpolation + 1) % 3
		if r.Bool() {
			other := gen.RandMap(r, false)
			if rawOther, err := proto.Marshal(other.M.ToProto()); err == nil {
				proto.Unmarshal(rawOther, msg)
			}
		}
		again, err := mapping.FromProto(a.M.ToProto())
		c.Count("oracle.message_is_a_value", 1)
		if err != nil || again == nil {
			c.Failf("proto.message_not_a_value", "FromProto(ToProto()) after an earlier message was edited: %v", err)
			return
		}
		if w2 := wrapDecoded(again); w2 == nil {
			c.Failf("proto.kind", "FromProto returned %T", again)
		} else {
			agree(c, "proto (after an earlier message was edited)", a, w2, r)
		}
	})
	// streaming protobuf form
	c.Guard("stream_proto", func() {
		var buf bytes.Buffer
		a.M.EncodeProto(sketchpb.NewIndexMappingBuilder(&buf))
		var pb sketchpb.IndexMapping
		if err := proto.Unmarshal(buf.Bytes(), &pb); err != nil {
			c.Failf("stream_proto.unmarshal", "%v", err)
			return
		}
		if !proto.Equal(&pb, a.M.ToProto()) {
			c.Failf("stream_proto.differs", "streamed mapping %v != ToProto %v", &pb, a.M.ToProto())
		}
		dm, err := mapping.FromProto(&pb)
		if err != nil || dm == nil {
			c.Failf("stream_proto.fromproto", "%v", err)
			return
		}
		w := wrapDecoded(dm)
		if w == nil {
			return
		}
		c.Count("oracle.stream_proto_roundtrips", 1)
		agree(c, "stream_proto", a, w, r)
	})
	// from alpha == from (gamma, offset)
	if g, err := gen.NewMapGamma(a.Kind, a.Gamma, a.Offset); err != nil || !g.M.Equals(a.M) || !a.M.Equals(g.M) {
		c.Failf("rebuild.not_equal", "mapping rebuilt from (gamma, offset) of %s is not Equals (%v)", a.Desc, err)
	}
	if !a.M.Equals(a.M) {
		c.Failf("equals.reflexive", "%s is not Equals to itself", a.Desc)
	}
	// a mapping built from an accuracy equals the one built from the corresponding base and offset
	// (base ((1+a)/(1-a))^k with k = 1, ln 2, 10 ln 2 / 7; offset 0, except 1/log2(base) for the linear kind)
	{
		al := gen.RandAlpha(r)
		kind := r.Intn(3)
		if fromAlpha, err := gen.NewMap(kind, al); err == nil {
			ratio := (1 + al) / (1 - al)
			var g, off float64
			switch kind {
			case gen.KLog:
				g, off = ratio, 0
			case gen.KLin:
				g = math.Pow(ratio, math.Ln2)
				off = 1 / math.Log2(g)
			default:
				g, off = math.Pow(ratio, 10*math.Ln2/7), 0
			}
			if fromBase, err := gen.NewMapGamma(kind, g, off); err == nil {
				c.Count("oracle.accuracy_vs_base_and_offset", 1)
				if !fromAlpha.M.Equals(fromBase.M) || !fromBase.M.Equals(fromAlpha.M) {
					c.Failf("accuracy_vs_base", "%s mapping built from accuracy %v (gamma %v, offset %v) is not Equals the mapping built from the corresponding base %v and offset %v",
						gen.KindNames[kind], al, fromAlpha.Gamma, fromAlpha.Offset, g, off)
				}
			}
		}
	}

	// near twins: the same kind with a base or an offset that differs in the last bits only (or a tiny offset next
	// to an offset of exactly zero). Whether such a pair is Equals is the tolerance's business; the answer must
	// be the same in both directions, and when the two are serialized and read back one right after the other,
	// in either order, each comes back as itself (nothing of the previously read mapping sticks).
	c.Guard("near twins", func() {
		x := a
		var y *gen.Map
		mode := r.Intn(4)
		k := float64((1 + r.Intn(4)) * (1 - 2*r.Intn(2)))
		tiny := []float64{5e-324, 1e-300, 1e-20, 1e-13, 9e-13, 2e-12}[r.Intn(6)] * float64(1-2*r.Intn(2))
		switch mode {
		case 0:
			y, _ = gen.NewMapGamma(a.Kind, a.Gamma*(1+k*0x1p-43), a.Offset)
		case 1:
			off := a.Offset * (1 + k*0x1p-43)
			if a.Offset == 0 {
				off = tiny
			}
			y, _ = gen.NewMapGamma(a.Kind, a.Gamma, off)
		case 2:
			// an offset of exactly zero next to a tiny one
			x, _ = gen.NewMapGamma(a.Kind, a.Gamma, 0)
			y, _ = gen.NewMapGamma(a.Kind, a.Gamma, tiny)
		default:
			y, _ = gen.NewMapGamma(a.Kind, a.Gamma*(1+k*0x1p-50), a.Offset)
		}
		if x == nil || y == nil || (x.Gamma == y.Gamma && x.Offset == y.Offset) {
			return
		}
		if r.Bool() {
			x, y = y, x
		}
		xy, yx := x.M.Equals(y.M), y.M.Equals(x.M)
		c.Count("oracle.near_twin_pairs", 1)
		if xy {
			c.Count("near_twins.equal_within_tolerance", 1)
		}
		if mode == 2 {
			c.Count("near_twins.zero_offset_vs_tiny_offset", 1)
		}
		if xy != yx {
			c.Failf("equals.symmetric", "Equals is not symmetric on the near twins %s / %s: %v vs %v", x.Desc, y.Desc, xy, yx)
			return
		}
		readBack := func(m *gen.Map, form int) *gen.Map {
			switch form {
			case 0:
				var b []byte
				m.M.Encode(&b)
				flag, err := enc.DecodeFlag(&b)
				if err != nil {
					return nil
				}
				dm, err := mapping.Decode(&b, flag)
				if err != nil || dm == nil {
					return nil
				}
				return wrapDecoded(dm)
			case 1:
				raw, err := proto.Marshal(m.M.ToProto())
				if err != nil {
					return nil
				}
				var pb sketchpb.IndexMapping
				if proto.Unmarshal(raw, &pb) != nil {
					return nil
				}
				dm, err := mapping.FromProto(&pb)
				if err != nil || dm == nil {
					return nil
				}
				return wrapDecoded(dm)
			default:
				var buf bytes.Buffer
				m.M.EncodeProto(sketchpb.NewIndexMappingBuilder(&buf))
				var pb sketchpb.IndexMapping
				if proto.Unmarshal(buf.Bytes(), &pb) != nil {
					return nil
				}
				dm, err := mapping.FromProto(&pb)
				if err != nil || dm == nil {
					return nil
				}
				return wrapDecoded(dm)
			}
		}
		form := r.Pick(3, 1, 1)
		how := []string{"binary", "proto", "stream_proto"}[form] + " (right after its near twin)"
		dx := readBack(x, form)
		dy := readBack(y, form)
		dx2 := readBack(x, form)
		if dx == nil || dy == nil || dx2 == nil {
			c.Failf("near_twins.read_back", "%s / %s could not be read back (%s)", x.Desc, y.Desc, how)
			return
		}
		c.Count("oracle.near_twin_roundtrips", 1)
		agree(c, how, x, dx, r)
		agree(c, how, y, dy, r)
		agree(c, how, x, dx2, r)
	})
	if c.Failed() {
		return
	}

	// second mapping and the inequality matrix
	var b *gen.Map
	relation := ""
	switch r.Pick(3, 3, 2, 2) {
	case 0: // other kind, same alpha
		k := (a.Kind + 1 + r.Intn(2)) % 3
		bb, err := gen.NewMapGamma(k, a.Gamma, a.Offset)
		if err == nil && r.Bool() {
			b = bb // same gamma and offset, only the kind differs
		} else {
			b, _ = gen.NewMap(k, a.M.RelativeAccuracy())
		}
		relation = "kind"
	case 1: // same kind, alpha apart by >= 0.1%
		f := 1 + r.LogUniform(1e-3, 0.5)
		al := a.M.RelativeAccuracy()
		if r.Bool() {
			al *= f
		} else {
			al /= f
		}
		if al >= 0.995 || al <= 0 {
			al = a.M.RelativeAccuracy() / f
		}
		base, err := gen.NewMap(a.Kind, al)
		if err == nil {
			b, _ = gen.NewMapGamma(a.Kind, base.Gamma, a.Offset)
		}
		relation = "alpha"
	case 2: // same kind and gamma, offset apart
		d := []float64{1, -1, 0.5, 1000, -1e6}[r.Intn(5)]
		off := a.Offset + d
		if off == a.Offset || math.Abs(off-a.Offset) <= 1e-9*math.Max(math.Abs(off), math.Abs(a.Offset)) {
			off = a.Offset*(1+1e-6) + 1
		}
		b, _ = gen.NewMapGamma(a.Kind, a.Gamma, off)
		relation = "offset"
	default:
		b = gen.RandMap(r, false)
		relation = "random"
	}
	if b == nil {
		return
	}
	c.SigS(b.Desc)
	c.Logf("mapping B %s (relation %s)", b.Desc, relation)
	// B is read back too, in the same process that read A (and its near twins) back before: whatever a decoder
	// remembers of earlier mappings - same base and offset under another kind, nearly the same base - B comes
	// back as itself
	c.Guard("binary B", func() {
		var bb []byte
		b.M.Encode(&bb)
		flag, err := enc.DecodeFlag(&bb)
		if err != nil {
			c.Failf("binary.flag", "DecodeFlag: %v", err)
			return
		}
		dm, err := mapping.Decode(&bb, flag)
		if err != nil || dm == nil {
			c.Failf("binary.decode", "mapping.Decode of the encoding of %s: %v", b.Desc, err)
			return
		}
		w := wrapDecoded(dm)
		if w == nil {
			c.Failf("binary.kind", "decoded mapping has an unexpected type %T", dm)
			return
		}
		c.Count("oracle.second_mapping_roundtrips", 1)
		if relation == "kind" && b.Gamma == a.Gamma && b.Offset == a.Offset {
			c.Count("second_mapping.same_base_and_offset_other_kind", 1)
		}
		agree(c, "binary (second mapping of the case)", b, w, r)
	})
	if c.Failed() {
		return
	}
	ab, ba := a.M.Equals(b.M), b.M.Equals(a.M)
	if ab != ba {
		c.Failf("equals.symmetric", "Equals is not symmetric on %s / %s: %v vs %v", a.Desc, b.Desc, ab, ba)
	}
	switch relation {
	case "kind":
		c.Count("oracle.inequalities.kind", 1)
		if ab || ba {
			c.Failf("equals.kinds", "mappings of different kinds are Equals: %s / %s", a.Desc, b.Desc)
		}
	case "alpha":
		c.Count("oracle.inequalities.alpha", 1)
		if ab || ba {
			c.Failf("equals.alpha", "mappings with accuracies %v and %v (>=0.1%% apart) are Equals: %s / %s", a.M.RelativeAccuracy(), b.M.RelativeAccuracy(), a.Desc, b.Desc)
		}
	case "offset":
		c.Count("oracle.inequalities.offset", 1)
		if ab || ba {
			c.Failf("equals.offset", "mappings with index offsets %v and %v are Equals: %s / %s", a.Offset, b.Offset, a.Desc, b.Desc)
		}
	default:
		if a.Kind != b.Kind && (ab || ba) {
			c.Failf("equals.kinds", "mappings of different kinds are Equals: %s / %s", a.Desc, b.Desc)
		}
	}
	// this equality is what gates merging and decoding: sketches over A and B merge, decode into each other and
	// decode from one stream exactly when A Equals B
	if ab == ba && !c.Failed() {
		c.Guard("gate", func() {
			mk := func(mm *gen.Map) *ddsketch.DDSketch {
				k := ddsketch.NewDDSketchFromStoreProvider(mm.M, store.SparseStoreConstructor)
				k.Add(mm.ClampIn(2))
				return k
			}
			var ea, eb []byte
			mk(a).Encode(&ea, false)
			mk(b).Encode(&eb, false)
			// (an argument that holds nothing is no exception: its mapping is still another mapping)
			emptyB := ddsketch.NewDDSketchFromStoreProvider(b.M, store.SparseStoreConstructor)
			if r.Bool() {
				emptyB.Add(b.ClampIn(3))
				emptyB.Clear()
			}
			if e := mk(a).MergeWith(emptyB); (e == nil) != ab {
				c.Failf("gate.empty_argument:MergeWith", "%s / %s: Equals=%v but MergeWith of an empty sketch returned %v", a.Desc, b.Desc, ab, e)
			}
			errMerge := mk(a).MergeWith(mk(b))
			errDecode := mk(a).DecodeAndMergeWith(eb)
			_, errStream := ddsketch.DecodeDDSketch(append(append([]byte{}, ea...), eb...), store.SparseStoreConstructor, nil)
			_, errStream2 := ddsketch.DecodeDDSketch(append(append([]byte{}, eb...), ea...), store.SparseStoreConstructor, nil)
			c.Count("oracle.gate_checks", 1)
			for i, e := range []error{errMerge, errDecode, errStream, errStream2} {
				what := []string{"MergeWith", "DecodeAndMergeWith", "DecodeDDSketch of both encodings in one stream (A first)", "DecodeDDSketch of both encodings in one stream (B first)"}[i]
				if ab && e != nil {
					c.Failf("gate.refuses_equal:"+what, "%s / %s are Equals but %s returned %v", a.Desc, b.Desc, what, e)
				} else if !ab && e == nil {
					c.Failf("gate.accepts_unequal:"+what, "%s / %s are not Equals but %s returned no error", a.Desc, b.Desc, what)
				}
			}
		})
	}
	if a.Offset != 0 || relation == "alpha" || relation == "offset" {
		c.NonTrivial()
		c.Sample(map[string]interface{}{"a": a.Desc, "b": b.Desc, "relation": relation})
	}
}

// ---------- C20 ----------

func runC20(c *core.Ctx) {
	r := c.R
	type ds struct {
		d   *dataset.Dataset
		ref []float64
	}
	newDS := func() *ds { return &ds{d: dataset.NewDataset()} }
	main := newDS()
	others := []*ds{}
	queried := false
	addAfterQuery, merged := false, false
	// sign mode of the case: mixed, all negative, all positive; and an adversarial summation mode
	signMode := r.Pick(6, 2, 2)
	adversarial := r.P(0.03)
	advBig, advSmall := 0x1p53, 1.0
	if r.Bool() {
		advBig, advSmall = 1, 1e-17
	}
	advN := 0
	c.Count("sign_mode."+[]string{"mixed", "all_negative", "all_positive"}[signMode], 1)
	if adversarial {
		c.Count("adversarial_sum_cases", 1)
	}
	// one case in forty holds same-signed values close to the top of the float64 range: the sum leaves the range
	// after a few additions (and must then be the infinity of that sign, whatever is added later)
	huge := !adversarial && signMode != 0 && r.P(0.08)
	if huge {
		c.Count("huge_value_cases", 1)
	}
	drawValue0 := func() float64 {
		if huge {
			return r.LogUniform(1e306, 1.7e308)
		}
		if adversarial {
			// a large value first, then many small ones that do not move the running sum individually
			advN++
			if advN == 1 {
				return advBig
			}
			return advSmall
		}
		switch r.Pick(4, 3, 2, 1) {
		case 0:
			return float64(r.Range(-20, 20))
		case 1:
			return r.Norm() * math.Pow(10, float64(r.Range(-3, 6)))
		case 2:
			if len(main.ref) > 0 {
				return main.ref[r.Intn(len(main.ref))]
			}
			return 0
		default:
			return []float64{0, math.Copysign(0, -1), 1e300, -1e300, 5e-324, 1, -1}[r.Intn(7)]
		}
	}
	// a small pool of values: many duplicates, first and last stored value often equal
	var smallPool []float64
	if !adversarial && r.P(0.25) {
		for i, k := 0, r.Range(2, 4); i < k; i++ {
			smallPool = append(smallPool, float64(r.Range(-9, 9))/2)
		}
		c.Count("small_pool_cases", 1)
	}
	drawValue := func() float64 {
		v := drawValue0()
		if smallPool != nil {
			v = smallPool[r.Intn(len(smallPool))]
		}
		switch signMode {
		case 1:
			if v == 0 {
				v = 1
			}
			return -math.Abs(v)
		case 2:
			return math.Abs(v)
		}
		return v
	}
	check := func(d *ds, name string) {
		sorted := append([]float64{}, d.ref...)
		sort.Float64s(sorted)
		n := len(sorted)
		if got := d.d.Count; got != float64(n) {
			c.Failf("count", "%s.Count=%v after %d additions", name, got, n)
		}
		if n > 0 && r.Bool() {
			// extremes asked before any quantile query (the values may not be sorted yet)
			var mn, mx float64
			if c.Guard("minmax", func() { mn, mx = d.d.Min(), d.d.Max() }) {
				return
			}
			c.Count("oracle.minmax_before_quantile_queries", 1)
			if mn != sorted[0] || mx != sorted[n-1] {
				c.Failf("minmax", "%s: Min/Max = %v/%v asked before any quantile query, want %v/%v", name, mn, mx, sorted[0], sorted[n-1])
			}
		}
		qs := []float64{0, 1, 0.5, r.Float(), r.Float()}
		if n > 1 {
			for i := 0; i < 6; i++ {
				k := r.Intn(n)
				q := float64(k) / float64(n-1)
				qs = append(qs, q, math.Nextafter(q, 2), math.Nextafter(q, -1))
			}
		}
		for _, q := range qs {
			var lo, up, qq float64
			if c.Guard("quantile", func() { lo, up, qq = d.d.LowerQuantile(q), d.d.UpperQuantile(q), d.d.Quantile(q) }) {
				return
			}
			if q < 0 || q > 1 || n == 0 {
				c.Count("oracle.nan_checks", 1)
				if !math.IsNaN(lo) || !math.IsNaN(up) || !math.IsNaN(qq) {
					c.Failf("nan", "%s: q=%v n=%d must give NaN, got %v/%v/%v", name, q, n, lo, up, qq)
				}
				continue
			}
			c.Count("oracle.quantile_checks", 1)
			// both readings of the rank: float product (documented) and exact product
			fr := q * float64(n-1)
			efl, ece := exactRank(q, int64(n-1))
			okLo := feqNaN(lo, sorted[int(math.Floor(fr))]) || feqNaN(lo, sorted[efl])
			okUp := feqNaN(up, sorted[int(math.Ceil(fr))]) || feqNaN(up, sorted[ece])
			if !okLo {
				c.Failf("lower", "%s: LowerQuantile(%v)=%v, want x[%d]=%v (n=%d)", name, q, lo, efl, sorted[efl], n)
			}
			if !okUp {
				c.Failf("upper", "%s: UpperQuantile(%v)=%v, want x[%d]=%v (n=%d)", name, q, up, ece, sorted[ece], n)
			}
			if !feqNaN(qq, lo) {
				c.Failf("quantile", "%s: Quantile(%v)=%v differs from LowerQuantile=%v", name, q, qq, lo)
			}
		}
		// out of range
		for _, q := range []float64{-0.1, math.Nextafter(0, -1), math.Nextafter(1, 2), 1.5, math.Inf(1), math.Inf(-1)} {
			c.Count("oracle.nan_checks", 1)
			if v := d.d.LowerQuantile(q); !math.IsNaN(v) {
				c.Failf("nan", "%s: LowerQuantile(%v)=%v, want NaN", name, q, v)
			}
			if v := d.d.UpperQuantile(q); !math.IsNaN(v) {
				c.Failf("nan", "%s: UpperQuantile(%v)=%v, want NaN", name, q, v)
			}
		}
		if n > 0 {
			var mn, mx float64
			if c.Guard("minmax", func() { mn, mx = d.d.Min(), d.d.Max() }) {
				return
			}
			if mn != sorted[0] || mx != sorted[n-1] {
				c.Failf("minmax", "%s: Min/Max = %v/%v, want %v/%v", name, mn, mx, sorted[0], sorted[n-1])
			}
		}
		// sum
		got := d.d.Sum()
		c.Count("oracle.sum_checks", 1)
		judgeSum(c, name, "", got, d.ref)
		queried = true
	}
	// single queries in any order between additions: each one is answered against the reference on its own,
	// so no earlier query of the same checkpoint has put the dataset into a convenient state
	favQ := []float64{0, 1, 0.5, r.Float(), r.Float()}
	single := func(d *ds, name string) {
		sorted := append([]float64{}, d.ref...)
		sort.Float64s(sorted)
		n := len(sorted)
		q := favQ[r.Intn(len(favQ))]
		if n > 1 && r.P(0.3) {
			q = float64(r.Intn(n)) / float64(n-1)
		}
		kind := r.Intn(7)
		if n == 0 && kind >= 5 {
			kind = r.Intn(5)
		}
		var got float64
		what := []string{"Sum", "Count", "LowerQuantile", "UpperQuantile", "Quantile", "Min", "Max"}[kind]
		if c.Guard(what, func() {
			switch kind {
			case 0:
				got = d.d.Sum()
			case 1:
				got = d.d.Count
			case 2:
				got = d.d.LowerQuantile(q)
			case 3:
				got = d.d.UpperQuantile(q)
			case 4:
				got = d.d.Quantile(q)
			case 5:
				got = d.d.Min()
			default:
				got = d.d.Max()
			}
		}) {
			return
		}
		c.Logf("%s.%s (q=%v) = %v", name, what, q, got)
		c.Count("oracle.single_query_checks", 1)
		c.Count("single."+what, 1)
		switch kind {
		case 0:
			judgeSum(c, name, " asked on its own", got, d.ref)
		case 1:
			if got != float64(n) {
				c.Failf("count", "%s.Count=%v after %d additions", name, got, n)
			}
		case 2, 3, 4:
			if n == 0 {
				if !math.IsNaN(got) {
					c.Failf("nan", "%s: %s(%v) on an empty dataset = %v, want NaN", name, what, q, got)
				}
				break
			}
			fr := q * float64(n-1)
			efl, ece := exactRank(q, int64(n-1))
			a, b := sorted[int(math.Floor(fr))], sorted[efl]
			if kind == 3 {
				a, b = sorted[int(math.Ceil(fr))], sorted[ece]
			}
			if !feqNaN(got, a) && !feqNaN(got, b) {
				c.Failf(map[int]string{2: "lower", 3: "upper", 4: "quantile"}[kind], "%s: %s(%v)=%v asked on its own, want %v (n=%d)", name, what, q, got, b, n)
			}
		case 5:
			if got != sorted[0] {
				c.Failf("minmax", "%s: Min()=%v asked on its own, want %v", name, got, sorted[0])
			}
		default:
			if got != sorted[n-1] {
				c.Failf("minmax", "%s: Max()=%v asked on its own, want %v", name, got, sorted[n-1])
			}
		}
		queried = true
	}
	n := r.Range(1, 80)
	if adversarial {
		n = r.Range(300, 1500)
	}
	for i := 0; i < n && !c.Failed(); i++ {
		if !adversarial && r.P(0.35) {
			single(main, "d")
			continue
		}
		switch r.Pick(10, 4, 2, 1) {
		case 0:
			v := drawValue()
			c.SigF(v)
			c.Logf("d.Add(%v)", v)
			main.d.Add(v)
			main.ref = append(main.ref, v)
			if queried {
				addAfterQuery = true
				c.Count("event.add_after_query", 1)
			}
		case 1:
			c.Logf("check d (n=%d)", len(main.ref))
			check(main, "d")
		case 2:
			if len(main.ref) > 0 && len(main.ref) <= 300 && r.P(0.15) {
				// a dataset merged with itself: "any two datasets" includes the same one twice; the result holds
				// every value twice (the argument is read while the receiver grows)
				c.Logf("d.Merge(d) with %d values", len(main.ref))
				if c.Guard("Merge(self)", func() { main.d.Merge(main.d) }) {
					return
				}
				main.ref = append(main.ref, main.ref...)
				merged = true
				c.Count("event.merge_with_itself", 1)
				if queried {
					c.Count("event.merge_with_itself_after_query", 1)
				}
				c.SigI(-1)
				break
			}
			if len(others) > 0 && r.P(0.15) {
				// an earlier argument merged a second time (it may have been sorted by queries since)
				o := others[r.Intn(len(others))]
				c.Logf("d.Merge(o) again with %d values", len(o.ref))
				main.d.Merge(o.d)
				main.ref = append(main.ref, o.ref...)
				c.Count("event.merge_again", 1)
				c.SigI(len(o.ref))
				check(o, "o")
				break
			}
			o := newDS()
			for j := 0; j < r.Range(0, 12); j++ {
				v := drawValue()
				o.d.Add(v)
				o.ref = append(o.ref, v)
			}
			if r.Bool() {
				check(o, "o") // query the argument before merging (sorts it)
			}
			c.Logf("d.Merge(o) with %d values", len(o.ref))
			main.d.Merge(o.d)
			main.ref = append(main.ref, o.ref...)
			others = append(others, o)
			merged = true
			c.Count("event.merge", 1)
			c.SigI(len(o.ref))
			// the argument keeps its values
			check(o, "o")
		default:
			// merge into a fresh dataset == adding all
			f := newDS()
			f.d.Merge(main.d)
			f.ref = append(f.ref, main.ref...)
			check(f, "fresh<-d")
		}
	}
	check(main, "d")
	if addAfterQuery && merged {
		c.NonTrivial()
		c.Sample(map[string]interface{}{"values": len(main.ref), "first": trunc(main.ref, 8), "merges": len(others)})
	}
}

// judgeSum compares a reported sum with the exact one. While the total of |v| stays below the float64 range the
// compensated-sum bound applies. Beyond it: same-signed values whose exact sum is out of range must give the
// infinity of that sign (every partial sum is monotone, so neither a finite number nor NaN is "accurate to
// rounding"); with mixed signs a partial sum may legitimately have overflowed, and nothing is asserted.
func judgeSum(c *core.Ctx, name, how string, got float64, ref []float64) {
	exact, absSum := bigSum(ref)
	n := len(ref)
	if absSum < math.MaxFloat64/4 {
		bound := 16*0x1p-53*absSum + 64*float64(n+1)*5e-324
		if !(math.Abs(got-exact) <= bound) {
			c.Failf("sum", "%s: Sum()=%v%s, exact %v, |diff| %g > bound %g", name, got, how, exact, math.Abs(got-exact), bound)
		}
		return
	}
	pos, neg := false, false
	for _, v := range ref {
		if v > 0 {
			pos = true
		} else if v < 0 {
			neg = true
		}
	}
	if pos && neg {
		c.Count("oracle.sum_checks.skipped_mixed_sign_overflow", 1)
		return
	}
	c.Count("oracle.sum_checks.near_or_beyond_float64_range", 1)
	if math.IsInf(exact, 0) {
		c.Count("oracle.sum_checks.overflowed_same_sign", 1)
		if got != exact {
			c.Failf("sum.overflow", "%s: Sum()=%v%s, the exact sum of %d same-signed values is beyond the float64 range (%v expected)", name, got, how, n, exact)
		}
		return
	}
	if got != got || !(math.Abs(got-exact) <= 16*0x1p-53*math.Abs(exact)) && !math.IsInf(got, 0) {
		c.Failf("sum", "%s: Sum()=%v%s, exact %v", name, got, how, exact)
	}
}

func feqNaN(a, b float64) bool {
	return math.Float64bits(a) == math.Float64bits(b) || a == b || (a != a && b != b)
}
