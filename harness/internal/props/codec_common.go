package props

import (
	"bytes"
	"fmt"
	"math"

	"verif/harness/internal/core"
	"verif/harness/internal/gen"
	"verif/harness/internal/mon"
	"verif/harness/internal/rng"
	"verif/harness/internal/wire"
)

// buildSource builds a sketch by a seeded history under model monitoring.
// caseBudget returns the exactness budget shared by all sources of one case.
func caseBudget(c *core.Ctx) *gen.Budget {
	if b, ok := c.Scratch["budget"].(*gen.Budget); ok {
		return b
	}
	b := &gen.Budget{}
	c.Scratch["budget"] = b
	return b
}

func buildSource(c *core.Ctx, r *rng.Rng, name string, exact bool, m *gen.Map, spec gen.StoreSpec, maxOps int) *skState {
	pattern := []string{"mixed", "mixed+zeros", "pos", "neg", "zeros+neg", "zeros", "single", "mixed+zeros"}[r.Intn(8)]
	h := newHistGen(c, r, m, spec, pattern, randSigmaIdx(r, 300))
	h.budget = caseBudget(c) // sources of one case get merged and concatenated: one budget for all of them
	h.exact = exact
	h.anySpec = true
	h.sameTarget = true
	h.weights[opAdd] = 45
	n := r.Range(0, maxOps)
	if spec.Kind == gen.SPaginated && r.P(0.3) {
		n = r.Range(70, 160)
	}
	if spec.Kind == gen.SPaginated && r.P(0.3) {
		// many unit entries spread thinly over many pages: they stay in the buffer (no page is worth creating),
		// the buffer grows beyond its compaction trigger and is encoded as one long index-delta block
		wide := genValues(c, r, m, gen.StoreSpec{Kind: gen.SDense}, r.Range(150, 300), []string{"pos", "neg", "mixed"}[r.Intn(3)], 2000)
		h.pool = wide.vals
		h.weights[opAdd] = 300
		h.weights[opClear] = 0
		n = r.Range(100, 400)
		c.Count("source.thin_spread_unit_entries", 1)
	}
	if r.P(0.05) {
		n = 0
	}
	st := newSkState(c, name, exact, m, spec)
	for _, op := range h.gen(n) {
		c.SigI(op.kind)
		c.SigF(op.v)
		c.SigF(op.w)
		if !st.apply(op) {
			return nil
		}
	}
	return st
}

// encodeAppending encodes s after an arbitrary existing prefix in a buffer with spare
// capacity and verifies that the prefix is untouched. It returns the appended bytes.
func encodeAppending(c *core.Ctx, r *rng.Rng, s mon.Sketch, omit bool) ([]byte, bool) {
	plen := r.Pick(3, 2, 2) * r.Range(1, 40)
	prefix := make([]byte, plen)
	for i := range prefix {
		prefix[i] = byte(r.U64())
	}
	arena := make([]byte, plen+r.Intn(3)*r.Range(0, 4000))
	for i := range arena {
		arena[i] = 0xA5 // the caller's other bytes in the same array, beyond the buffer's length
	}
	buf := arena[:plen]
	copy(buf, prefix)
	var panicked bool
	panicked = c.Guard("Encode", func() { s.I().Encode(&buf, omit) })
	if panicked {
		return nil, false
	}
	c.Count("oracle.append_only_checks", 1)
	if len(buf) > 0 && len(arena) > 0 && len(buf) <= len(arena) && &buf[0] == &arena[0] {
		// the encoding fitted in the spare capacity: nothing beyond it was written
		c.Count("oracle.spare_capacity_untouched", 1)
		for i := len(buf); i < len(arena); i++ {
			if arena[i] != 0xA5 {
				c.Failf("encode.writes_past_the_encoding", "Encode appended %d bytes into spare capacity and also changed byte %d of the array beyond them", len(buf)-plen, i)
				break
			}
		}
	}
	if len(buf) < plen || !bytes.Equal(buf[:plen], prefix) {
		c.Failf("encode.clobbers_prefix", "Encode changed the %d bytes already in the caller's buffer", plen)
		return nil, false
	}
	return append([]byte{}, buf[plen:]...), true
}

func mapSubOf(kind int) byte {
	switch kind {
	case gen.KLog:
		return wire.SubMapLog
	case gen.KLin:
		return wire.SubMapLinear
	}
	return wire.SubMapCubic
}

func cmpIndexMap(got map[int64]float64, want map[int]float64) string {
	if len(got) != len(want) {
		return fmt.Sprintf("%d bins vs %d", len(got), len(want))
	}
	for k, w := range want {
		if g, ok := got[int64(k)]; !ok || g != w {
			return fmt.Sprintf("bin %d: %v vs %v", k, g, w)
		}
	}
	return ""
}

// checkWireContent parses an encoding produced by the library with the independent
// codec and compares what the documentation says it contains with the model.
func checkWireContent(c *core.Ctx, e []byte, st *skState, omit bool) ([]wire.Block, bool) {
	c.Count("oracle.independent_parse", 1)
	blocks, err := wire.Parse(e)
	if err != nil {
		c.Failf("wire.malformed", "the encoding is not a sequence of documented blocks: %v (bytes % x)", err, truncBytes(e, 80))
		return nil, false
	}
	ct := wire.ContentOf(blocks)
	for name, n := range ct.Layouts {
		c.Count("layout."+name, n)
	}
	if ct.StoreBlocks >= 2 {
		c.Count("encoding.multi_store_blocks", 1)
	}
	if omit {
		if ct.HasMapping {
			c.Failf("wire.mapping_not_omitted", "omitIndexMapping=true but the encoding holds a mapping block")
		}
	} else {
		if !ct.HasMapping {
			c.Failf("wire.mapping_missing", "omitIndexMapping=false but the encoding holds no mapping block")
			return blocks, false
		}
		if ct.MappingConflict || ct.MapSub != mapSubOf(st.m.Kind) || math.Float64bits(ct.Gamma) != math.Float64bits(st.m.Gamma) || math.Float64bits(ct.Offset) != math.Float64bits(st.m.Offset) {
			c.Failf("wire.mapping_content", "mapping block says subflag %d gamma %v offset %v; the sketch uses %s", ct.MapSub, ct.Gamma, ct.Offset, st.m.Desc)
		}
	}
	if !st.mdl.BinsUnknown {
		if ct.Zero != st.mdl.Zero {
			c.Failf("wire.zero", "zero-count blocks sum to %v, model %v", ct.Zero, st.mdl.Zero)
		}
		if d := cmpIndexMap(ct.Pos, st.mdl.Pos.W); d != "" {
			c.Failf("wire.positive_bins", "positive store blocks differ from the model: %s", d)
		}
		if d := cmpIndexMap(ct.Neg, st.mdl.Neg.W); d != "" {
			c.Failf("wire.negative_bins", "negative store blocks differ from the model: %s", d)
		}
	}
	if st.s.Exact {
		k := st.s.I()
		es := statsOf(st.mdl.Items)
		wantCount := 0.0
		if ct.HasCount {
			wantCount = ct.Count
		}
		if wantCount != es.count {
			c.Failf("wire.count", "count block %v (present=%v), exact count %v", ct.Count, ct.HasCount, es.count)
		}
		sum := 0.0
		if ct.HasSum {
			sum = ct.Sum
		}
		if math.Float64bits(sum) != math.Float64bits(k.GetSum()) && !(sum == 0 && k.GetSum() == 0) {
			c.Failf("wire.sum", "sum block %v (present=%v), GetSum() %v", ct.Sum, ct.HasSum, k.GetSum())
		}
		if es.n > 0 {
			if !ct.HasMin || !ct.HasMax || ct.Min != es.min || ct.Max != es.max {
				c.Failf("wire.minmax", "min/max blocks %v/%v (present %v/%v), exact extremes %v/%v", ct.Min, ct.Max, ct.HasMin, ct.HasMax, es.min, es.max)
			}
		} else if ct.HasMin || ct.HasMax {
			c.Failf("wire.minmax", "min/max blocks present for an empty sketch")
		}
		c.Count("oracle.independent_parse.exact", 1)
	} else if ct.HasCount || ct.HasSum || ct.HasMin || ct.HasMax {
		c.Failf("wire.unexpected_statistics", "a plain sketch encoded statistics blocks")
	}
	return blocks, !c.Failed()
}

func truncBytes(b []byte, n int) []byte {
	if len(b) > n {
		return b[:n]
	}
	return b
}

// modelOfBlocks builds the content the documentation assigns to blocks, as a model for a target store spec.
func modelOfBlocks(blocks []wire.Block, m *gen.Map, target gen.StoreSpec) *mon.SketchModel {
	md := mon.NewSketchModel(m, target)
	for i := range blocks {
		b := &blocks[i]
		switch b.Type() {
		case wire.TypeFeature:
			if b.Sub() == wire.SubZeroCount {
				md.Zero += b.Value
			}
		case wire.TypePositive:
			for _, bin := range b.Bins() {
				md.Pos.Add(int(bin.Index), bin.Count)
			}
		case wire.TypeNegative:
			for _, bin := range b.Bins() {
				md.Neg.Add(int(bin.Index), bin.Count)
			}
		}
	}
	return md
}
