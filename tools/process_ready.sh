#!/bin/bash
# tools/process_ready.sh <prefix e.g. /tmp/w9_> <letterA> <letterB> <round-tag>
# For every agent directory whose six deliverables are present and whose changes are not archived yet:
# validate both changes (tools/validate_mutant.sh via process_round.sh) and run the target check on each.
PFX="$1"; LA="$2"; LB="$3"; TAG="$4"
cd /verif
for d in ${PFX}C*/; do
  id=$(basename $d | sed 's/.*_//'); out=$d/_out
  [ -f $out/A.diff ] && [ -f $out/B.diff ] && [ -f $out/A_demo_test.go ] && [ -f $out/B_demo_test.go ] && [ -f $out/A.md ] && [ -f $out/B.md ] || continue
  [ -f seeded/${id}${LA}/patch.diff ] || [ -f seeded/${id}${LB}/patch.diff ] && continue
  ONLY=$id tools/process_round.sh $PFX $LA $LB $TAG 2>&1 | grep RESULT
  for L in $LA $LB; do
    [ -f seeded/${id}${L}/patch.diff ] && tools/checks_on_mutant.sh ${id}${L} $id 2>&1 | grep "rc=" | cut -c1-260
  done
done
