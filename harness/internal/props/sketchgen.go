package props

import (
	"math"
	"math/big"

	"verif/harness/internal/core"
	"verif/harness/internal/gen"
	"verif/harness/internal/rng"
)

// valueSet is a generated input for sketch-level checks.
type valueSet struct {
	vals    []float64
	pattern string
	classes map[string]int
	ci      int
}

var signPatterns = []string{"pos", "neg", "mixed", "zeros+neg", "zeros+pos", "zeros", "single", "submin", "mixed+zeros"}

// subMin draws a value that must land in the zero bucket (or, exactly at
// +-MinIndexableValue, may be treated either way).
func subMin(r *rng.Rng, m *gen.Map) float64 {
	var v float64
	switch r.Pick(4, 1, 2, 2, 2, 1) {
	case 0:
		v = 0
	case 1:
		v = math.Copysign(0, -1)
	case 2:
		v = 5e-324 * float64(r.Range(1, 4))
	case 3:
		v = m.Min / 2
	case 4:
		v = gen.Ulps(m.Min, -r.Range(1, 3))
	default:
		v = m.Min // exactly on the threshold
	}
	if r.Bool() {
		v = -v
	}
	return v
}

// genValues draws up to n trackable values for mapping m whose per-side index span
// fits the span budget of store spec sp. sigmaIdx is the spread in bins.
func genValues(c *core.Ctx, r *rng.Rng, m *gen.Map, sp gen.StoreSpec, n int, pattern string, sigmaIdx float64) valueSet {
	vs := valueSet{pattern: pattern, classes: map[string]int{}}
	ci := m.RandCentreIndex(r)
	vs.ci = ci
	sigmaLog := sigmaIdx * m.LnG
	budget := sp.SpanBudget()
	type side struct {
		has    bool
		lo, hi int
	}
	var pos, neg side
	fit := func(s *side, idx int) bool {
		if !s.has {
			s.has, s.lo, s.hi = true, idx, idx
			return true
		}
		lo, hi := s.lo, s.hi
		if idx < lo {
			lo = idx
		}
		if idx > hi {
			hi = idx
		}
		if hi-lo+1 > budget {
			return false
		}
		s.lo, s.hi = lo, hi
		return true
	}
	if pattern == "single" {
		n = 1
	}
	var prev []float64
	for len(vs.vals) < n {
		var v float64
		class := ""
		sign := 1.0
		switch pattern {
		case "neg":
			sign = -1
		case "mixed", "mixed+zeros":
			if r.Bool() {
				sign = -1
			}
		case "zeros+neg":
			sign = -1
		case "single":
			if r.Bool() {
				sign = -1
			}
		}
		zero := false
		switch pattern {
		case "zeros", "submin":
			zero = true
		case "zeros+neg", "zeros+pos", "mixed+zeros":
			zero = r.P(0.35)
		case "single":
			zero = r.P(0.2)
		default:
			zero = r.P(0.03)
		}
		if zero {
			v = subMin(r, m)
			if pattern == "zeros" && r.P(0.8) {
				v = 0
			}
			class = "zero_bucket"
		} else if len(prev) > 0 && r.P(0.1) {
			v = prev[r.Intn(len(prev))]
			class = "duplicate"
		} else {
			v, class = m.RandValue(r, ci, sigmaLog)
			v *= sign
		}
		if math.Abs(v) > m.Min {
			idx := m.M.Index(math.Abs(v))
			ok := true
			if v > 0 {
				ok = fit(&pos, idx)
			} else {
				ok = fit(&neg, idx)
			}
			if !ok {
				// outlier beyond the store's span budget: replace by a clustered value
				v = prevOr(prev, m.ClampIn(m.M.Value(clampI(ci, m.IMin+1, m.IMax-1)))*sign)
				class = "duplicate"
				if math.Abs(v) > m.Min {
					idx = m.M.Index(math.Abs(v))
					if v > 0 && !fit(&pos, idx) || v < 0 && !fit(&neg, idx) {
						v = 0
						class = "zero_bucket"
					}
				}
			}
		}
		vs.vals = append(vs.vals, v)
		vs.classes[class]++
		if !zero {
			prev = append(prev, v)
		}
	}
	for k, n := range vs.classes {
		c.Count("value."+k, n)
	}
	return vs
}

func prevOr(prev []float64, def float64) float64 {
	if len(prev) > 0 {
		return prev[0]
	}
	return def
}

func clampI(x, lo, hi int) int {
	if x < lo {
		return lo
	}
	if x > hi {
		return hi
	}
	return x
}

func randSigmaIdx(r *rng.Rng, max float64) float64 {
	s := []float64{0.3, 2, 10, 50, 300, 2000}[r.Intn(6)]
	if s > max {
		s = max
	}
	return s
}

func randN(r *rng.Rng, max int) int {
	var n int
	switch r.Pick(3, 4, 3) {
	case 0:
		n = r.Range(1, 10)
	case 1:
		n = r.Range(10, 100)
	default:
		n = r.Range(100, 2000)
	}
	if n > max {
		n = max
	}
	return n
}

// exactRank returns floor and ceil of q*(n-1) computed exactly.
func exactRank(q float64, nMinus1 int64) (int64, int64) {
	qr := new(big.Rat).SetFloat64(q)
	qr.Mul(qr, new(big.Rat).SetInt64(nMinus1))
	fl := new(big.Int).Quo(qr.Num(), qr.Denom())
	f := fl.Int64()
	if new(big.Int).Mul(fl, qr.Denom()).Cmp(qr.Num()) == 0 {
		return f, f
	}
	return f, f + 1
}

// quantileGrid draws hostile quantiles for n items: every k/(n-1) and float
// neighbours (all k for n<=64, else 64 sampled), 0, 1 and random q.
func quantileGrid(r *rng.Rng, n int) (qs []float64, atInteger int) {
	qs = append(qs, 0, 1, 0.5, math.Nextafter(0, 1), math.Nextafter(1, 0))
	if n > 1 {
		ks := []int{}
		if n <= 64 {
			for k := 0; k < n; k++ {
				ks = append(ks, k)
			}
		} else {
			for i := 0; i < 64; i++ {
				ks = append(ks, r.Intn(n))
			}
		}
		for _, k := range ks {
			q := float64(k) / float64(n-1)
			qs = append(qs, q)
			atInteger++
			if up := math.Nextafter(q, 2); up <= 1 {
				qs = append(qs, up)
			}
			if dn := math.Nextafter(q, -1); dn >= 0 {
				qs = append(qs, dn)
			}
		}
	}
	for i := 0; i < 8; i++ {
		qs = append(qs, r.Float())
	}
	return
}
