#!/bin/bash
# tools/process_round.sh <prefix e.g. /tmp/w4_> <letterA> <letterB> <round-tag> : validate, archive and check every finished agent output
PFX="$1"; LA="$2"; LB="$3"; TAG="$4"
for d in ${PFX}C*/; do
  id=$(basename $d | sed 's/.*_//')
  [ -n "${ONLY:-}" ] && ! echo " $ONLY " | grep -q " $id " && continue
  out=$d/_out
  [ -f $out/A.md ] && [ -f $out/B.md ] || [ -f $out/A.diff -a -f $out/B.diff -a ! -d /proc/self/nonexistent ] || continue
  [ -f $out/A.diff ] || continue
  for L in A B; do
    [ -f $out/$L.diff ] && [ -f $out/${L}_demo_test.go ] || continue
    sid=$id$( [ $L = A ] && echo $LA || echo $LB )
    [ -f /verif/seeded/$sid/patch.diff ] && continue
    echo -n "$sid: "; /verif/tools/validate_mutant.sh $out $L $sid 2>&1 | tail -1
  done
  mkdir -p /verif/seeded/_raw/${id}_$TAG && cp $out/*.diff $out/*.md $out/*_test.go /verif/seeded/_raw/${id}_$TAG/ 2>/dev/null
done
