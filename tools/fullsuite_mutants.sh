#!/bin/bash
# tools/fullsuite_mutants.sh [parallel] : for every /verif/seeded/<id>/patch.diff whose validation.log lacks the
# full-suite line, run the unedited existing suite with the change applied in a scratch worktree (removed afterwards).
export GOFLAGS=-mod=mod GOPROXY=off GOSUMDB=off GOTOOLCHAIN=local
PAR="${1:-3}"
one(){
  sid="$1"; d=/verif/seeded/$sid; wt=/tmp/fs_$sid
  grep -q "existing suite with change" $d/validation.log 2>/dev/null && return
  git -C /repo worktree remove --force $wt >/dev/null 2>&1
  git -C /repo worktree add --detach $wt HEAD >/dev/null 2>&1 || return
  ( cd $wt && git apply $d/patch.diff && go test -vet=off -count=1 -timeout 40m ./... > $d/fullsuite.log 2>&1 )
  if [ $? -eq 0 ]; then echo "existing suite with change: PASS (go test -vet=off -count=1 ./... in a scratch worktree)" >> $d/validation.log
  else echo "existing suite with change: FAIL (see fullsuite.log)" >> $d/validation.log; fi
  git -C /repo worktree remove --force $wt >/dev/null 2>&1; rm -rf $wt
  echo "$sid: $(tail -1 $d/validation.log)"
}
export -f one
ls /verif/seeded | grep -E '^C[0-9]+[A-Z]$' | xargs -P "$PAR" -I{} bash -c 'one {}'
