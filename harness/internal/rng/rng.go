// Package rng is a small deterministic PRNG (splitmix64 seeding, xoshiro256**)
// so that every case of every property is a pure function of
// (VERIF_SEED, property id, case index), independent of worker count.
package rng

import (
	"math"
	"math/bits"
)

type Rng struct{ s [4]uint64 }

func splitmix(x *uint64) uint64 {
	*x += 0x9e3779b97f4a7c15
	z := *x
	z = (z ^ (z >> 30)) * 0xbf58476d1ce4e5b9
	z = (z ^ (z >> 27)) * 0x94d049bb133111eb
	return z ^ (z >> 31)
}

// Hash mixes a list of words into one.
func Hash(words ...uint64) uint64 {
	h := uint64(0x243f6a8885a308d3)
	for _, w := range words {
		h ^= w
		h = splitmix(&h)
	}
	return h
}

func HashString(s string) uint64 {
	h := uint64(14695981039346656037)
	for i := 0; i < len(s); i++ {
		h ^= uint64(s[i])
		h *= 1099511628211
	}
	return h
}

func New(seed uint64) *Rng {
	r := &Rng{}
	x := seed
	for i := range r.s {
		r.s[i] = splitmix(&x)
	}
	return r
}

// Fork derives an independent stream.
func (r *Rng) Fork() *Rng { return New(r.U64()) }

func (r *Rng) U64() uint64 {
	s := &r.s
	res := bits.RotateLeft64(s[1]*5, 7) * 9
	t := s[1] << 17
	s[2] ^= s[0]
	s[3] ^= s[1]
	s[1] ^= s[2]
	s[0] ^= s[3]
	s[2] ^= t
	s[3] = bits.RotateLeft64(s[3], 45)
	return res
}

// Intn returns a value in [0,n). n must be > 0.
func (r *Rng) Intn(n int) int {
	if n <= 0 {
		panic("rng.Intn: n <= 0")
	}
	return int(r.U64() % uint64(n))
}

// Range returns a value in [lo,hi] inclusive.
func (r *Rng) Range(lo, hi int) int {
	if hi < lo {
		lo, hi = hi, lo
	}
	return lo + int(r.U64()%uint64(hi-lo+1))
}

func (r *Rng) Bool() bool { return r.U64()&1 == 1 }

// P returns true with probability p.
func (r *Rng) P(p float64) bool { return r.Float() < p }

// Float returns a value in [0,1).
func (r *Rng) Float() float64 { return float64(r.U64()>>11) / (1 << 53) }

// LogUniform returns a value log-uniformly distributed in [lo,hi].
func (r *Rng) LogUniform(lo, hi float64) float64 {
	return math.Exp(math.Log(lo) + r.Float()*(math.Log(hi)-math.Log(lo)))
}

// Norm returns a standard normal variate.
func (r *Rng) Norm() float64 {
	u1 := r.Float()
	for u1 == 0 {
		u1 = r.Float()
	}
	u2 := r.Float()
	return math.Sqrt(-2*math.Log(u1)) * math.Cos(2*math.Pi*u2)
}

// Pick returns an index in [0,len(weights)) with probability proportional to the weights.
func (r *Rng) Pick(weights ...int) int {
	tot := 0
	for _, w := range weights {
		tot += w
	}
	x := r.Intn(tot)
	for i, w := range weights {
		if x < w {
			return i
		}
		x -= w
	}
	return len(weights) - 1
}

func (r *Rng) Perm(n int) []int {
	p := make([]int, n)
	for i := range p {
		p[i] = i
	}
	for i := n - 1; i > 0; i-- {
		j := r.Intn(i + 1)
		p[i], p[j] = p[j], p[i]
	}
	return p
}
