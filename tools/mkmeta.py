#!/usr/bin/env python3
"""Writes /verif/seeded/<id>/meta.json for every confirmed seeded change from validation.log, agent_notes.md and results.txt."""
import json, os, re, glob
ROOT='/verif/seeded'
results={}
for l in open(os.path.join(ROOT,'results.txt')):
    m=re.match(r'(\S+) =>(.*)',l.strip())
    if not m: continue
    sid=m.group(1)
    for tok in m.group(2).split():
        cid,rc=tok.split(':')
        results.setdefault(sid,{}).setdefault(cid,[]).append(int(rc))
rows=[]
for d in sorted(glob.glob(os.path.join(ROOT,'C[0-9][0-9][A-Z]'))):
    sid=os.path.basename(d)
    if not os.path.exists(os.path.join(d,'patch.diff')): continue
    log=open(os.path.join(d,'validation.log')).read()
    notes=open(os.path.join(d,'agent_notes.md')).read() if os.path.exists(os.path.join(d,'agent_notes.md')) else ''
    files=sorted(set(re.findall(r'^\+\+\+ b/(\S+)',open(os.path.join(d,'patch.diff')).read(),re.M)))
    res=results.get(sid,{})
    caught_now=sorted(c for c,r in res.items() if r[-1]==1)
    missed_first=sorted(c for c,r in res.items() if r[0]==0 and r[-1]==1)
    still_missed=sorted(c for c,r in res.items() if r[-1]==0)
    meta={
      'id':sid,
      'breaks_property':sid[:3],
      'files_changed':files,
      'what_it_needs_to_manifest':notes.strip(),
      'confirmed_by':{
         'script':'tools/validate_mutant.sh (scratch worktree of /repo under /tmp, removed afterwards)',
         'patch_applies_and_builds': 'RESULT: confirmed' in log,
         'demo_passes_without_change':'demo without change: PASS' in log,
         'demo_fails_with_change':'demo with change: FAIL' in log,
         'existing_suite_passes_with_change': ('existing suite with change: PASS' in log) if 'existing suite with change' in log else 'reported by the author of the change; own run pending',
      },
      'checks_run_against_it (quick tier, seed 1, patch applied to /repo then undone)':{c:('VIOLATION' if r[-1]==1 else 'silent') for c,r in sorted(res.items())},
      'caught_by':caught_now,
      'caught_only_after_strengthening':missed_first,
      'not_caught_by':still_missed,
    }
    json.dump(meta,open(os.path.join(d,'meta.json'),'w'),indent=1)
    rows.append((sid,files,caught_now,missed_first,still_missed))
for r in rows: print(r)
