#!/bin/bash
# tools/recheck_all.sh [pattern] : regression matrix - every kept seeded change against its target check (quick tier),
# one at a time, applied to /repo and undone straight afterwards. Appends to /verif/seeded/recheck.txt (id check rc class);
# ids already recorded there as detected (rc=1) are skipped, so an interrupted run can be resumed. FRESH=1 starts over.
cd /verif || exit 2
PAT="${1:-^C[0-9]+[A-Z]$}"
out=/verif/seeded/recheck.txt
[ -n "${FRESH:-}" ] && : > $out
touch $out
for sid in $(ls seeded | grep -E "$PAT"); do
  [ -f seeded/$sid/patch.diff ] || continue
  id=${sid:0:3}
  grep -q "^$sid $id rc=1 " $out && continue
  line=$(tools/checks_on_mutant.sh $sid $id 2>&1 | tail -1)
  echo "$line" | cut -c1-240 >> $out
  git -C /repo diff --quiet || { echo "REPO DIRTY after $sid" >> $out; git -C /repo checkout -- .; }
done
echo "detected: $(grep -c ' rc=1 ' $out)"; grep -v ' rc=1 ' $out
