#!/usr/bin/env python3
"""Regenerates /verif/MANIFEST.json from the table below (kept in one place so that the
manifest stays valid while checks are added)."""
import json, os, subprocess, sys
ROOT = os.path.dirname(os.path.dirname(os.path.abspath(__file__)))

# id -> (category, technique, level text, level note, design ref)
CHECKS = {
 "C01": ("exploration", "reference-model monitor (sorted multiset, exact rational rank) over seeded hostile inputs",
         "Runtime monitoring: the real sketch is driven with seeded hostile multisets (bin-edge values +-k ulps, binade boundaries, range ends, sub-minimum magnitudes) over all mapping kinds, alpha in [1e-6,0.99], offsets and the three non-collapsing stores; every answer at every k/(n-1), its float neighbours, 0, 1 and random q is compared with the order statistics at floor/ceil of the exact rank. Held on the executions produced, not a proof.",
         "Trusted: the harness's own sort and big.Rat rank; calibrated float slack 64*u(v) (DESIGN §3.6); |v|==MinIndexableValue accepted either way.", "§4 C01"),
 "C02": ("exploration", "differential monitor (single sketch vs merge tree) with argument snapshots",
         "Runtime monitoring: one input is fed to a single sketch and to 1-8 parts of independently chosen store kinds, merged along random trees by MergeWith or DecodeAndMergeWith; the full observation (bins, zero weight, count, extremes, quantile grid) must be bitwise identical; the argument's observation is compared before/after each merge; empty merges must be no-ops.",
         "Trusted: unit weights make all sums exact; observation = public API only.", "§4 C02"),
 "C04": ("exploration", "online reference-model monitor (exact index->weight map) after every store operation, layout events via hook",
         "Runtime monitoring: seeded operation histories on dense/sparse/paginated stores (adds, weighted adds, bins, merges from all 5 kinds, copies, clears, reweights, encode/decode, proto) with every observer (TotalCount, IsEmpty, Min/MaxIndex, ForEach, Bins, KeyAtRank on exact cumulative boundaries) compared with the mathematical map after every event; the hook shows which internal paths (array shift/grow, page allocation, compaction, capacity reuse) were reached.",
         "Trusted: dyadic weights under an exactness budget (float arithmetic exact); collapsing arguments follow C05's model.", "§4 C04"),
 "C05": ("exploration", "online reference-model monitor (fold model) + bound assertions via layout hook; sketch-level accuracy monitor",
         "Runtime monitoring: the C04 histories on collapsing stores for N in {1..2048} incl. merges of wider stores into empty/cleared receivers; content compared with the folded exact map after every event; #bins<=N, span<=N and (hook) allocated length<=N asserted; collapsing sketches checked against the alpha bound on retained bins and the edge-bin rule otherwise.",
         "Trusted: fold model (edge = extreme -/+ (N-1)); dyadic weights.", "§4 C05"),
}

NOT_YET = {}

def main():
    props = [json.loads(l) for l in open(os.path.join(ROOT, "properties.jsonl"))]
    ids = [p["id"] for p in props]
    hooks_commits = subprocess.run(["git", "-C", "/repo", "log", "--format=%H %s"], capture_output=True, text=True).stdout.splitlines()
    hook_shas = [l.split()[0] for l in hooks_commits if "verif hook" in l]
    checks = []
    na = []
    for i in ids:
        if i in CHECKS:
            cat, tech, text, note, ref = CHECKS[i]
            checks.append({
                "property_id": i,
                "quick_cmd": f"./check {i} quick",
                "thorough_cmd": f"./check {i} thorough",
                "evidence_file": f"/verif/evidence/{i}.json",
                "replay_cmd_template": f"./check {i} --replay {{path}}",
                "engine": "vh",
                "level_claimed": {"category": cat, "text": text, "design_ref": "DESIGN.md " + ref},
                "level_note": note,
                "technique": "runtime monitoring: " + tech,
            })
        else:
            na.append({"property_id": i, "reason": NOT_YET.get(i, "check not built yet in this revision (runtime monitor planned, see DESIGN.md §4); not claimed until it exists")})
    m = {
        "version": 1,
        "setup_cmd": "./check build",
        "hooks": {
            "guard": "verif (Go build tag)",
            "enable": "go build -tags verif (the harness module replaces github.com/DataDog/sketches-go with /repo)",
            "baseline_off_cmd": "cd /repo && GOFLAGS=-mod=mod GOPROXY=off GOSUMDB=off GOTOOLCHAIN=local go test -mod=mod -json -vet=off -count=1 -timeout 25m ./...",
            "source_commits": hook_shas,
            "add_only": True,
        },
        "engines": [{"name": "vh", "path": "/verif/harness", "serves_properties": sorted(CHECKS), "kind_free_text": "Go harness: seeded workload generators, monitor wrappers with shadow models, process-isolated workers, witness replay; race-detector build for C14"}],
        "checks": checks,
        "notes": "All checks are runtime monitors over executions of the real code (see DESIGN.md). Exit 0 held / 1 violation / 2 inconclusive. VERIF_SEED selects the PRNG stream; case lists are PRNG-determined, never time-budgeted.",
        "not_applicable": na,
    }
    json.dump(m, open(os.path.join(ROOT, "MANIFEST.json"), "w"), indent=1)
    print("MANIFEST.json:", len(checks), "checks,", len(na), "not applicable")

main()
