package props

import (
	"bytes"
	"math"

	enc "github.com/DataDog/sketches-go/ddsketch/encoding"
	"github.com/DataDog/sketches-go/ddsketch/store"

	"verif/harness/internal/core"
	"verif/harness/internal/gen"
	"verif/harness/internal/mon"
	"verif/harness/internal/rng"
)

func init() {
	core.Register(&core.Prop{
		ID:    "C14",
		Level: "exploration",
		Rule: "twin monitor: sketches A and B (both variants, all 5 store kinds, all mapping kinds) receive the same seeded mutation history; A additionally receives, between mutations, random read-only calls (quantiles single/batch, count/min/max/sum, ForEach with early stop, Bins, KeyAtRank, MinIndex/MaxIndex, ToProto, EncodeProto, Encode, Copy, being the argument of MergeWith and of ChangeMapping); " +
			"the observation of A must be identical across every read-only call and equal to B's at the end; copies taken at random points must equal the original at copy time and, after disjoint suffixes on both sides, each must equal its own sequentially replayed twin. " +
			"Second pass (race-detector build): two objects that must be independent - a sketch/store and its Copy, the receiver and the argument of a merge into an empty sketch, the source and the result of an identity conversion, a sketch and the one decoded from its encoding, a sketch and the one rebuilt from its protobuf message (handed over as it is; the message is re-read meanwhile) - are hammered by two unsynchronised goroutines; any DATA RACE report is shared mutable state, and each must end equal to its sequential twin. Non-trivial = the hook saw a read-only call reorganise the representation (sort/compact) or a copy followed by mutations on both sides; distinct = hash of the history.",
		Cases:     core.Scale(10000, 250000),
		Mandatory: []string{"oracle.read_purity_checks", "oracle.twin_equalities", "oracle.copy_equalities", "oracle.copy_independence_checks", "layout.read_reorganised", "read.Encode", "read.ToProto", "read.EncodeProto", "read.Bins", "read.as_merge_argument", "read.as_change_mapping_source", "ending.underflowed_bins", "race.pairs", "race.pairs.copy", "race.pairs.merge_receiver_and_argument", "race.pairs.identity_conversion", "race.pairs.decoded_from_encoding", "race.pairs.rebuilt_from_message", "race.pairs.store_copy", "read.change_mapping_below_target_range"},
		Assumptions: []string{
			"dyadic weights: observations are bitwise comparable whatever the iteration order of the sparse store",
			"race pass: the Go race detector only reports races on executions it sees; silence is not a proof of independence",
		},
		Run:  runC14,
		Post: raceC14,
	})
	core.Register(&core.Prop{
		ID:    "C15",
		Level: "exploration",
		Rule: "twin monitor: X = history H1, Clear, history H2; Y = freshly constructed object, H2; the observation of X must equal Y's right after Clear and after every event of H2. H2 uses other index ranges than H1 (inside, overlapping, far below/above the old window, other pages), repeated clear/reuse cycles, DecodeAndMergeWith/MergeWith as first event after Clear, a Clear issued when every weight had underflowed to zero, and interrupted decodes (a valid payload cut at any byte, applied to both; same error-or-not, same state afterwards) among the events of H2; " +
			"sketch level (both variants, all 5 store kinds with the same N) and store level (all observers vs the exact model of a fresh store, after every event). Non-trivial = the hook shows retained capacity reused or a previously collapsed store cleared; distinct = hash of both histories.",
		Cases:     core.Scale(16000, 400000),
		Mandatory: []string{"oracle.clear_twin_checks", "layout.reuse_capacity", "layout.cleared_collapsed", "clear.then_decode_first", "clear.then_merge_first", "clear.cycles", "oracle.store_checks", "clear.then_compaction_heavy_history", "clear.after_all_weights_underflowed", "clear.then_interrupted_decode"},
		Run:       runC15,
	})
}

// ---------- C14 ----------

// readOnlyCall performs one random read-only operation on s.
func readOnlyCall(c *core.Ctx, r *rng.Rng, s mon.Sketch, m *gen.Map, spec gen.StoreSpec, safeCM bool) string {
	k := s.I()
	name := ""
	c.Guard("read-only call", func() {
		switch r.Intn(16) {
		case 0:
			name = "GetValueAtQuantile"
			k.GetValueAtQuantile(r.Float())
		case 1:
			name = "GetValuesAtQuantiles"
			k.GetValuesAtQuantiles([]float64{r.Float(), r.Float(), 0, 1})
		case 2:
			name = "GetCount/IsEmpty/GetZeroCount"
			k.GetCount()
			k.IsEmpty()
			k.GetZeroCount()
		case 3:
			name = "GetMinValue/GetMaxValue"
			k.GetMinValue()
			k.GetMaxValue()
		case 4:
			name = "GetSum"
			k.GetSum()
		case 5:
			name = "ForEach(stop early)"
			n := r.Intn(5)
			k.ForEach(func(v, w float64) bool { n--; return n < 0 })
		case 6:
			name = "Bins"
			for range k.GetPositiveValueStore().Bins() {
			}
			for range k.GetNegativeValueStore().Bins() {
			}
		case 7:
			name = "KeyAtRank"
			k.GetPositiveValueStore().KeyAtRank(r.Float() * 10)
			k.GetNegativeValueStore().KeyAtRank(r.Float() * 10)
		case 8:
			name = "MinIndex/MaxIndex/TotalCount"
			for _, st := range []store.Store{k.GetPositiveValueStore(), k.GetNegativeValueStore()} {
				st.MinIndex()
				st.MaxIndex()
				st.TotalCount()
				st.IsEmpty()
			}
		case 9:
			name = "ToProto"
			s.P.ToProto()
		case 10:
			name = "EncodeProto"
			var buf bytes.Buffer
			s.P.EncodeProto(&buf)
		case 11:
			name = "Encode"
			var b []byte
			k.Encode(&b, r.Bool())
		case 12:
			name = "Copy"
			cp := s.Copy()
			cp.I().Add(m.ClampIn(1))
			cp.I().Clear()
		case 13:
			name = "as_merge_argument"
			recv := mon.NewSketch(s.Exact, m.M, gen.RandAnyStore(r))
			if r.Bool() {
				recv = mon.NewSketch(s.Exact, m.M, spec)
			}
			near := m.ClampIn(2)
			if mx, err := k.GetMaxValue(); err == nil && mx > m.Min {
				near = mx // stay inside the index range the sketch already spans
			}
			if r.Bool() {
				recv.I().Add(near) // else: merge into an empty receiver
			}
			recv.MergeWith(s)
			// the receiver keeps being used: nothing of it may alias the argument
			recv.I().Add(near)
			recv.I().AddWithCount(-near, 3)
			recv.I().Reweight(2)
			recv.I().Clear()
			recv.I().Add(near)
		case 14:
			name = "as_change_mapping_source"
			if !safeCM {
				name = "GetCount/IsEmpty/GetZeroCount"
				k.GetCount()
				return
			}
			nm := gen.RandMap(r, true)
			scale := []float64{1, 2, 0.5, 1000}[r.Intn(4)]
			if r.P(0.3) {
				nm, scale = m, 1
			}
			target := gen.RandPlainStore(r)
			if scale != 1 && r.P(0.25) {
				// a unit change so drastic that part of the content falls below what the new mapping can index
				// (the smallest magnitude held lands 2^-1..2^-30 under its smallest indexable value): whatever the
				// result is, the source is only read
				amin := 0.0
				k.ForEach(func(v, w float64) bool {
					if a := math.Abs(v); a > 0 && (amin == 0 || a < amin) {
						amin = a
					}
					return false
				})
				if sc := nm.Min / amin * math.Ldexp(1, -r.Range(1, 30)); amin > 0 && sc > 0 && !math.IsInf(sc, 0) {
					scale, target = sc, gen.StoreSpec{Kind: gen.SSparse}
					c.Count("read.change_mapping_below_target_range", 1)
				}
			}
			out := s.ChangeMapping(nm.M, target, scale)
			// the result keeps being used: nothing of it may alias the source
			out.I().GetCount()
			out.I().Add(nm.ClampIn(2))
			out.I().Reweight(4)
			out.I().Clear()
		default:
			name = "store.Encode/ForEach"
			var b []byte
			k.GetPositiveValueStore().Encode(&b, enc.FlagTypePositiveStore)
			k.GetNegativeValueStore().ForEach(func(int, float64) bool { return false })
		}
	})
	return name
}

func layoutsOf(s mon.Sketch) (store.VerifLayout, store.VerifLayout) {
	return layoutOf(s.I().GetPositiveValueStore()), layoutOf(s.I().GetNegativeValueStore())
}

func reorganised(a, b store.VerifLayout) bool {
	return a.Kind == "paginated" && (a.BufferLen != b.BufferLen || a.BufferSorted != b.BufferSorted || a.AllocatedPages != b.AllocatedPages)
}

func runC14(c *core.Ctx) {
	r := c.R
	m := gen.RandMap(r, true)
	spec := gen.RandAnyStore(r)
	if c.Index%2 == 0 {
		spec = gen.StoreSpec{Kind: gen.SPaginated}
	}
	exact := r.P(0.4)
	pattern := []string{"mixed", "mixed+zeros", "pos", "neg", "zeros+neg"}[r.Intn(5)]
	h := newHistGen(c, r, m, spec, pattern, randSigmaIdx(r, 300))
	h.exact = exact
	h.anySpec = true
	h.weights[opAdd] = 45
	n := r.Range(1, 50)
	if spec.Kind == gen.SPaginated && r.P(0.4) {
		n = r.Range(70, 160) // enough unit adds for the buffer to exceed the compaction trigger
	}
	ops := h.gen(n)
	c.Logf("twins A (with reads) and B (quiet): exact=%v mapping %s store %s", exact, m.Desc, spec)
	c.SigS(m.Desc)
	c.SigS(spec.String())
	A, B := mon.NewSketch(exact, m.M, spec), mon.NewSketch(exact, m.M, spec)
	specA, specB := spec, spec
	mA, mB := m, m
	rr := r.Fork() // reads do not perturb the mutation stream
	safeCM := true // ChangeMapping needs values well inside the mappings' ranges
	for _, v := range h.pool {
		if a := math.Abs(v); a > m.Min && (a < 1e-150 || a > 1e150) {
			safeCM = false
		}
	}
	reorganisedSeen, copyBoth := false, false
	for i, op := range ops {
		c.SigI(op.kind)
		c.SigF(op.v)
		c.SigF(op.w)
		errA := applyOp(c, "A", &A, &specA, &mA, op)
		errB := applyOp(c, "B", &B, &specB, &mB, op)
		if c.Failed() {
			return
		}
		if errA != nil || errB != nil {
			c.Failf("op.error", "valid operation %s returned %v / %v", op, errA, errB)
			return
		}
		// read-only calls on A only
		for j := rr.Intn(4); j > 0; j-- {
			before := mon.Observe(A, nil)
			lp0, ln0 := layoutsOf(A)
			name := readOnlyCall(c, rr, A, mA, specA, safeCM)
			lp1, ln1 := layoutsOf(A)
			if c.Failed() {
				return
			}
			c.Count("read."+name, 1)
			c.Logf("A: read-only %s", name)
			if reorganised(lp0, lp1) || reorganised(ln0, ln1) {
				c.Count("layout.read_reorganised", 1)
				reorganisedSeen = true
			}
			c.Count("oracle.read_purity_checks", 1)
			if d := before.Diff(mon.Observe(A, nil)); d != "" {
				c.Failf("read_changed_state:"+name, "the read-only call %s changed the sketch: %s", name, d)
				return
			}
		}
		// copies
		if rr.P(0.08) {
			cp := A.Copy()
			c.Count("oracle.copy_equalities", 1)
			c.Logf("cp := A.Copy() after op %d", i)
			if d := mon.Observe(A, nil).Diff(mon.Observe(cp, nil)); d != "" {
				c.Failf("copy_differs", "a copy differs from its original at copy time (original vs copy): %s", d)
				return
			}
			// disjoint suffixes: Y on the copy, the remaining ops on A; the copy must equal a sequential replay
			hy := newHistGen(c, rr, mA, specA, pattern, 30)
			hy.budget = h.budget // the copy holds weight drawn under h's budget
			hy.budget.Charge(h.running)
			hy.running = h.running
			hy.exact = exact
			hy.anySpec = true
			opsY := hy.gen(rr.Range(1, 12))
			// the copy also absorbs values of both signs, whatever the original holds (an empty side must not be shared)
			if pv := math.Abs(hy.pool[rr.Intn(len(hy.pool))]); pv > mA.Min {
				opsY = append(opsY, skOp{kind: opAddW, v: pv, w: 2}, skOp{kind: opAddW, v: -pv, w: 2}, skOp{kind: opAddW, v: 0, w: 2})
				hy.budget.Charge(6)
			}
			T := mon.NewSketch(exact, m.M, spec)
			specT, mT := spec, m
			for _, o := range ops[:i+1] {
				applyOp(c, "T", &T, &specT, &mT, o)
			}
			specC, mC := specA, mA
			// interleave: mutate the original in between
			snapshotA := mon.Observe(A, nil)
			for _, o := range opsY {
				applyOp(c, "cp", &cp, &specC, &mC, o)
				applyOp(c, "T", &T, &specT, &mT, o)
			}
			if c.Failed() {
				return
			}
			c.Count("oracle.copy_independence_checks", 1)
			if d := snapshotA.Diff(mon.Observe(A, nil)); d != "" {
				c.Failf("copy_mutation_leaks_to_original", "operations on a copy changed the original: %s", d)
				return
			}
			snapshotC := mon.Observe(cp, nil)
			// mutate the original itself through the remaining shared history (below); check the copy at the end
			defer func(cp mon.Sketch, want *mon.Obs, T mon.Sketch) {
				if c.Failed() {
					return
				}
				c.Count("oracle.copy_independence_checks", 1)
				if d := want.Diff(mon.Observe(cp, nil)); d != "" {
					c.Failf("original_mutation_leaks_to_copy", "operations on the original changed a copy: %s", d)
					return
				}
				if d := mon.Observe(T, nil).Diff(mon.Observe(cp, nil)); d != "" {
					c.Failf("copy_differs_from_replay", "a copy that continued on its own differs from a sequential replay of the same history (replay vs copy): %s", d)
				}
			}(cp, snapshotC, T)
			if i < len(ops)-1 {
				copyBoth = true
			}
		}
	}
	if rr.P(0.2) && len(h.pool) > 0 {
		// bins that underflowed to weight zero: a tiny weight, then a power-of-two reweighting (exact for every
		// other bin). Read-only calls must not change what such a sketch answers either.
		v := h.pool[rr.Intn(len(h.pool))]
		under := []skOp{{kind: opAddW, v: v, w: 0x1p-1000}, {kind: opReweight, w: 0x1p-100}}
		for _, op := range under {
			applyOp(c, "A", &A, &specA, &mA, op)
			applyOp(c, "B", &B, &specB, &mB, op)
		}
		c.Count("ending.underflowed_bins", 1)
		for j := 0; j < 6 && !c.Failed(); j++ {
			before := mon.Observe(A, nil)
			name := readOnlyCall(c, rr, A, mA, specA, false)
			c.Count("read."+name, 1)
			c.Count("oracle.read_purity_checks", 1)
			if d := before.Diff(mon.Observe(A, nil)); d != "" {
				c.Failf("read_changed_state:"+name, "the read-only call %s changed a sketch holding underflowed bins: %s", name, d)
				return
			}
		}
	}
	c.Count("oracle.twin_equalities", 1)
	if d := mon.Observe(B, nil).Diff(mon.Observe(A, nil)); d != "" {
		c.Failf("twin_differs", "the sketch that answered read-only calls differs from its quiet twin (quiet vs read): %s", d)
	}
	if reorganisedSeen || copyBoth {
		c.NonTrivial()
		c.Sample(map[string]interface{}{"exact": exact, "mapping": m.Desc, "store": spec.String(), "ops": len(ops), "first_ops": opStrings(ops, 5)})
	}
}

// ---------- C15 ----------

func runC15(c *core.Ctx) {
	if c.Index%3 == 2 {
		runC15Store(c)
		return
	}
	r := c.R
	m := gen.RandMap(r, true)
	spec := gen.RandAnyStore(r)
	exact := r.P(0.4)
	p1 := signPatterns[r.Intn(len(signPatterns))]
	p2 := signPatterns[r.Intn(len(signPatterns))]
	sigma := randSigmaIdx(r, 300)
	if spec.Collapsing() && r.P(0.6) {
		sigma = float64(spec.N)
		if sigma > 2000 {
			sigma = 2000
		}
	}
	h1 := newHistGen(c, r, m, spec, p1, sigma)
	h1.exact, h1.anySpec, h1.sameTarget = exact, true, true
	h1.weights[opClear] = 1
	c.Logf("X = H1; Clear; H2 vs Y = new; H2   exact=%v mapping %s store %s", exact, m.Desc, spec)
	c.SigS(m.Desc)
	c.SigS(spec.String())
	X := mon.NewSketch(exact, m.M, spec)
	specX, mX := spec, m
	cycles := r.Pick(6, 3, 1) + 1
	nontrivial := false
	for cyc := 0; cyc < cycles; cyc++ {
		for _, op := range h1.gen(r.Range(1, 60)) {
			c.SigI(op.kind)
			c.SigF(op.v)
			if err := applyOp(c, "X", &X, &specX, &mX, op); err != nil || c.Failed() {
				if err != nil {
					c.Failf("op.error", "valid operation %s returned %v", op, err)
				}
				return
			}
		}
		if r.P(0.12) {
			// every weight underflows to zero before the Clear: the sketch holds nothing, but its stores still
			// span index ranges (and may be collapsed) - Clear must forget those all the same
			c.Logf("X.Reweight(2^-1000) twice")
			if c.Guard("Reweight", func() { X.I().Reweight(0x1p-1000); X.I().Reweight(0x1p-1000) }) {
				return
			}
			c.Count("clear.after_all_weights_underflowed", 1)
		}
		lp0, ln0 := layoutsOf(X)
		wasCollapsed := lp0.IsCollapsed || ln0.IsCollapsed
		c.Logf("X.Clear()")
		if c.Guard("Clear", func() { X.I().Clear() }) {
			return
		}
		if cyc > 0 {
			c.Count("clear.cycles", 1)
		}
		if wasCollapsed {
			c.Count("layout.cleared_collapsed", 1)
			nontrivial = true
		}
		lp1, ln1 := layoutsOf(X)
		if (lp1.BinsCap > 0 && lp1.BinsLen == 0) || (ln1.BinsCap > 0 && ln1.BinsLen == 0) || (lp1.PagesLen > 0 && lp1.PagesUnused) || (ln1.PagesLen > 0 && ln1.PagesUnused) || lp1.BufferCap > 4 || ln1.BufferCap > 4 {
			c.Count("layout.reuse_capacity", 1)
			nontrivial = true
		}
		// H2 on another index range
		h2 := newHistGen(c, r, m, specX, p2, randSigmaIdx(r, 300))
		h2.budget = h1.budget // X goes on with H1 after H2 in the next cycle: one budget for the whole case
		h2.exact, h2.anySpec, h2.sameTarget = exact, true, true
		h2.weights[opClear] = 0
		heavy := r.P(0.3)
		if heavy {
			// many unit additions concentrated on a few pages: after Clear the buffer fills up and compaction
			// re-creates pages in memory kept from before the Clear
			conc := genValues(c, r, m, gen.StoreSpec{Kind: gen.SDense}, r.Range(20, 60), []string{"pos", "neg", "mixed"}[r.Intn(3)], []float64{3, 10, 30}[r.Intn(3)])
			h2.pool = conc.vals
			h2.weights[opAdd] = 400
			c.Count("clear.then_compaction_heavy_history", 1)
		}
		switch r.Intn(4) {
		case 0:
			h2.pool = append([]float64{}, h1.pool...) // same range
		case 1:
			h2.pool = append(h2.pool, h1.pool[:len(h1.pool)/2]...) // overlapping
		}
		n2 := r.Range(1, 40)
		if heavy {
			n2 = r.Range(100, 260)
		}
		ops2 := h2.gen(n2)
		if len(ops2) > 0 && !heavy {
			switch r.Intn(4) {
			case 0:
				ops2[0] = skOp{kind: opDecodeMerge, arg: h2.recipe(), omit: r.Bool()}
				c.Count("clear.then_decode_first", 1)
			case 1:
				ops2[0] = skOp{kind: opMerge, arg: h2.recipe()}
				c.Count("clear.then_merge_first", 1)
			}
		}
		Y := mon.NewSketch(exact, m.M, specX)
		specY, mY := specX, m
		c.Count("oracle.clear_twin_checks", 1)
		if d := mon.Observe(Y, nil).Diff(mon.Observe(X, nil)); d != "" {
			c.Failf("cleared_not_empty", "a cleared sketch differs from a new one (new vs cleared): %s", d)
			return
		}
		for oi, op := range ops2 {
			c.SigI(op.kind)
			c.SigF(op.v)
			e1 := applyOp(c, "X", &X, &specX, &mX, op)
			e2 := applyOp(c, "Y", &Y, &specY, &mY, op)
			if c.Failed() {
				return
			}
			if e1 != nil || e2 != nil {
				c.Failf("op.error", "valid operation %s returned %v / %v", op, e1, e2)
				return
			}
			if r.P(0.1) {
				// an interrupted decode (valid payload cut at any byte): whatever it leaves behind, it leaves the
				// same in a reused sketch as in a new one
				a := h2.recipe()
				if specX.Kind == gen.SPaginated && r.Bool() {
					a.Spec = specX
				}
				var payload []byte
				a.build(exact, mX).I().Encode(&payload, r.Bool())
				if len(payload) > 1 {
					payload = payload[:r.Range(1, len(payload)-1)]
				}
				var d1, d2 error
				c.Logf("X/Y.DecodeAndMergeWith(first %d bytes of the encoding of a %s sketch with %d items)", len(payload), a.Spec, len(a.Items))
				if c.Guard("DecodeAndMergeWith(cut payload)", func() { d1 = X.I().DecodeAndMergeWith(payload); d2 = Y.I().DecodeAndMergeWith(payload) }) {
					return
				}
				c.Count("clear.then_interrupted_decode", 1)
				if (d1 == nil) != (d2 == nil) {
					c.Failf("cleared_differs_from_new", "an interrupted decode returned %v on the reused sketch and %v on a new one", d1, d2)
					return
				}
			}
			if heavy && oi%8 != 7 && oi != len(ops2)-1 {
				continue
			}
			c.Count("oracle.clear_twin_checks", 1)
			if d := mon.Observe(Y, nil).Diff(mon.Observe(X, nil)); d != "" {
				c.Failf("cleared_differs_from_new", "after Clear and %s the reused sketch differs from a new one given the same history (new vs reused): %s", op, d)
				return
			}
		}
		h1.pool = h2.pool // next cycle's H1 continues in H2's range
		h1.spec = specX
		h1.running = h2.running
	}
	if nontrivial {
		c.NonTrivial()
		c.Sample(map[string]interface{}{"level": "sketch", "exact": exact, "mapping": m.Desc, "store": spec.String(), "cycles": cycles})
	}
}

// runC15Store: store level. The exact model of a *fresh* store is compared with a store that
// went through H1 and Clear, after every event of H2 (all observers), with H2 in another index window.
func runC15Store(c *core.Ctx) {
	r := c.R
	spec := gen.RandAnyStore(r)
	any := func(sp gen.StoreSpec) bool { return true }
	h := runStoreHistory(c, spec, func(r *rng.Rng) gen.StoreSpec { return gen.RandAnyStore(r) }, any)
	if c.Failed() {
		return
	}
	nontrivial := false
	cycles := r.Range(1, 3)
	for cyc := 0; cyc < cycles && !c.Failed(); cyc++ {
		s := h.main
		l0 := layoutOf(s.St)
		s.Clear()
		l1 := layoutOf(s.St)
		if l0.IsCollapsed {
			c.Count("layout.cleared_collapsed", 1)
			nontrivial = true
		}
		if (l1.BinsCap > 0 && l1.BinsLen == 0) || (l1.PagesLen > 0 && l1.PagesUnused) || l1.BufferCap > 4 {
			c.Count("layout.reuse_capacity", 1)
			nontrivial = true
		}
		if cyc > 0 {
			c.Count("clear.cycles", 1)
		}
		h.check(s)
		// move the window: inside, overlapping, far below/above, other pages
		shift := []int{0, 7, -7, 40, -40, 200, -200, 5000, -5000, 32, -64}[r.Intn(11)]
		h.ig.centre += shift
		c.Logf("   [window centre moved by %d]", shift)
		first := r.Intn(4)
		if first == 0 {
			a := h.smallArg()
			if h.fitsAll(s.Spec, a) && h.budget.Charge(a.M.Total()) {
				s.MergeWith(a)
				c.Count("clear.then_merge_first", 1)
				h.check(s)
			}
		} else if first == 1 {
			a := h.smallArg()
			if h.fitsAll(s.Spec, a) && h.budget.Charge(a.M.Total()) {
				// decode the argument's encoding into the cleared store
				t := a.EncodeDecode(a.Spec, h.name())
				_ = t
				var b []byte
				a.St.Encode(&b, enc.FlagTypePositiveStore)
				c.Logf("%s.DecodeAndMergeWith(%s.Encode())", s.Name, a.Name)
				c.Guard("DecodeAndMergeWith", func() {
					rest := b
					for len(rest) > 0 {
						flag, err := enc.DecodeFlag(&rest)
						if err != nil {
							return
						}
						if err := s.St.DecodeAndMergeWith(&rest, flag.SubFlag()); err != nil {
							c.Failf("store.decode.error", "DecodeAndMergeWith: %v", err)
							return
						}
					}
				})
				s.M.Merge(a.M)
				c.Count("clear.then_decode_first", 1)
				h.check(s)
			}
		}
		if r.P(0.3) {
			// many unit additions on two adjacent pages: compaction re-creates pages in memory kept by Clear
			base := (h.ig.centre >> 5) << 5
			for i, k := 0, r.Range(80, 200); i < k && !c.Failed(); i++ {
				h.budget.Charge(1)
				s.Add(base + r.Intn(64) - 32*r.Intn(2))
			}
			c.Count("clear.then_compaction_heavy_history", 1)
			h.check(s)
		}
		n := r.Range(1, 40)
		for i := 0; i < n && !c.Failed(); i++ {
			h.step()
			c.Count("oracle.clear_twin_checks", 1)
		}
	}
	if nontrivial {
		c.NonTrivial()
		c.Sample(map[string]interface{}{"level": "store", "store": spec.String(), "cycles": cycles, "stores_in_history": len(h.pool)})
	}
}
