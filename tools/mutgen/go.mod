module verif/tools/mutgen

go 1.21
