// Package gen holds the seeded workload generators: mappings, stores, values,
// indexes, weights.
package gen

import (
	"fmt"
	"math"

	"github.com/DataDog/sketches-go/ddsketch/mapping"

	"verif/harness/internal/rng"
)

const (
	KLog = iota
	KLin
	KCub
)

var KindNames = []string{"log", "lin", "cub"}

// Map wraps a library mapping together with what the monitors need to know about it.
type Map struct {
	M      mapping.IndexMapping
	Kind   int
	Alpha  float64 // requested accuracy (or the reported one when built from gamma)
	Gamma  float64
	Offset float64
	Min    float64
	Max    float64
	IMin   int // Index(Min)
	IMax   int // Index(Max)
	LnG    float64
	Desc   string
}

func (m *Map) KindName() string { return KindNames[m.Kind] }

// U is the calibrated unit of floating-point slack for comparisons that go
// through Index/Value/LowerBound at value v (DESIGN.md §3.6): a few ulps in the
// index/log domain.
func (m *Map) U(v float64) float64 {
	v = math.Abs(v)
	if v == 0 || math.IsNaN(v) || math.IsInf(v, 0) {
		return 0x1p-52
	}
	idx := math.Abs(math.Log(v)/m.LnG+m.Offset) + math.Abs(m.Offset)
	return 0x1p-52 * (1 + math.Abs(math.Log(v)) + (idx+1)*m.LnG)
}

// Slack is the tolerated relative excess at v: 64 units.
func (m *Map) Slack(v float64) float64 { return 64 * m.U(v) }

func wrap(im mapping.IndexMapping, kind int, alpha float64, desc string) *Map {
	pb := im.ToProto()
	m := &Map{M: im, Kind: kind, Alpha: alpha, Gamma: pb.Gamma, Offset: pb.IndexOffset,
		Min: im.MinIndexableValue(), Max: im.MaxIndexableValue(), Desc: desc}
	m.IMin = im.Index(m.Min)
	m.IMax = im.Index(m.Max)
	// effective log-domain width of one bin: 2*atanh(alpha)
	a := im.RelativeAccuracy()
	m.LnG = 2 * math.Atanh(a)
	return m
}

// NewMap builds a mapping of the given kind from an accuracy.
func NewMap(kind int, alpha float64) (*Map, error) {
	var im mapping.IndexMapping
	var err error
	switch kind {
	case KLog:
		var x *mapping.LogarithmicMapping
		x, err = mapping.NewLogarithmicMapping(alpha)
		im = x
	case KLin:
		var x *mapping.LinearlyInterpolatedMapping
		x, err = mapping.NewLinearlyInterpolatedMapping(alpha)
		im = x
	default:
		var x *mapping.CubicallyInterpolatedMapping
		x, err = mapping.NewCubicallyInterpolatedMapping(alpha)
		im = x
	}
	if err != nil {
		return nil, err
	}
	return wrap(im, kind, alpha, fmt.Sprintf("%s(alpha=%g)", KindNames[kind], alpha)), nil
}

// NewMapGamma builds a mapping from a base and an index offset, as decoders do.
func NewMapGamma(kind int, gamma, offset float64) (*Map, error) {
	var im mapping.IndexMapping
	var err error
	switch kind {
	case KLog:
		var x *mapping.LogarithmicMapping
		x, err = mapping.NewLogarithmicMappingWithGamma(gamma, offset)
		im = x
	case KLin:
		var x *mapping.LinearlyInterpolatedMapping
		x, err = mapping.NewLinearlyInterpolatedMappingWithGamma(gamma, offset)
		im = x
	default:
		var x *mapping.CubicallyInterpolatedMapping
		x, err = mapping.NewCubicallyInterpolatedMappingWithGamma(gamma, offset)
		im = x
	}
	if err != nil {
		return nil, err
	}
	return wrap(im, kind, im.RelativeAccuracy(), fmt.Sprintf("%s(gamma=%v,offset=%v)", KindNames[kind], gamma, offset)), nil
}

var AlphaGrid = []float64{1e-6, 1e-5, 1e-4, 1e-3, 0.01, 0.02, 0.05, 0.1, 0.25, 0.5, 0.9, 0.99}

// RandAlpha draws an accuracy from the grid or log-uniformly from [1e-6, 0.99].
func RandAlpha(r *rng.Rng) float64 {
	if r.P(0.6) {
		return AlphaGrid[r.Intn(len(AlphaGrid))]
	}
	a := r.LogUniform(1e-6, 0.99)
	return a
}

// RandOffsetFor draws an index offset regime: 0 default, 1 fractional, 2 medium, 3 large.
func RandOffset(r *rng.Rng, regime int) float64 {
	sign := 1.0
	if r.Bool() {
		sign = -1
	}
	switch regime {
	case 1:
		return sign * r.Float() * 3
	case 2:
		return sign * math.Floor(r.LogUniform(1e4, 1e6)*8) / 8
	case 3:
		return sign * math.Floor(r.LogUniform(1e8, 2.14e9))
	}
	return 0
}

// RoundMap draws a mapping built from a "round" base (powers and roots of two, 1+2^-k) and a
// round offset (integer, half-integer, or 1/log2(gamma)), as a decoder may be handed: with such
// parameters (index-offset)/multiplier hits exact integers, i.e. bin bounds sit exactly on binade boundaries.
func RoundMap(r *rng.Rng, kind int) *Map {
	for try := 0; try < 20; try++ {
		var g float64
		switch r.Pick(3, 3, 3) {
		case 0:
			g = []float64{2, 4, 16, 1.5, 3}[r.Intn(5)]
		case 1:
			g = math.Pow(2, 1/float64(int(1)<<uint(r.Range(1, 9))))
		default:
			g = 1 + math.Ldexp(1, -r.Range(1, 9))
		}
		var off float64
		switch r.Pick(3, 3, 2, 2) {
		case 0:
			off = 0
		case 1:
			off = float64(r.Range(-2000, 2000))
		case 2:
			off = float64(r.Range(-2000, 2000)) + 0.5
		default:
			off = 1 / math.Log2(g)
		}
		m, err := NewMapGamma(kind, g, off)
		if err != nil || !(m.Min < m.Max) || m.IMax-m.IMin < 8 || m.M.RelativeAccuracy() >= 0.995 {
			continue
		}
		return m
	}
	m, _ := NewMap(kind, 0.01)
	return m
}

// RandMap draws a mapping over kinds, accuracies and offsets. When moderate is
// set, accuracies are kept >= 1e-4 and offsets small so that index ranges stay
// compatible with dense stores' span budget.
func RandMap(r *rng.Rng, moderate bool) *Map {
	if r.P(0.08) {
		return RoundMap(r, r.Intn(3))
	}
	for {
		kind := r.Intn(3)
		alpha := RandAlpha(r)
		if moderate && alpha < 1e-3 {
			alpha = []float64{1e-3, 0.005, 0.01, 0.02, 0.05, 0.1}[r.Intn(6)]
		}
		regime := r.Pick(6, 2, 2, 1)
		if moderate && regime == 3 {
			regime = 2
		}
		var m *Map
		var err error
		if regime == 0 && r.P(0.7) {
			m, err = NewMap(kind, alpha)
		} else {
			base, e0 := NewMap(kind, alpha)
			if e0 != nil {
				continue
			}
			off := base.Offset
			if regime != 0 {
				off = RandOffset(r, regime)
			}
			m, err = NewMapGamma(kind, base.Gamma, off)
			if m != nil {
				m.Alpha = alpha
			}
		}
		if err != nil || m == nil {
			continue
		}
		if !(m.Min < m.Max) || m.IMax-m.IMin < 8 {
			continue
		}
		return m
	}
}

// --- float helpers ---

// NextUp / NextDown by k ulps (k may be negative). Works on positive finite floats.
func Ulps(v float64, k int) float64 {
	if k == 0 || math.IsNaN(v) || math.IsInf(v, 0) {
		return v
	}
	b := int64(math.Float64bits(v))
	if v < 0 {
		return -Ulps(-v, -k)
	}
	nb := b + int64(k)
	if nb < 1 {
		nb = 1
	}
	if nb >= 0x7ff0000000000000 {
		nb = 0x7fefffffffffffff
	}
	return math.Float64frombits(uint64(nb))
}

var ulpSteps = []int{0, 1, 2, 3, 4, 5, 6, 7, 8, 16, 64, 256, 1024, 4096}

func RandUlpStep(r *rng.Rng) int {
	k := ulpSteps[r.Intn(len(ulpSteps))]
	if r.Bool() {
		return -k
	}
	return k
}

// Clamp to [Min,Max] of the mapping, strictly inside by default.
func (m *Map) ClampIn(v float64) float64 {
	if v < m.Min {
		return m.Min
	}
	if v > m.Max {
		return m.Max
	}
	return v
}

// EdgeValue returns a positive value within a few ulps of a bin lower bound of m,
// the bin being chosen around centre index ci (|offset| up to spread). Returned
// flag tells whether the value is within 8 ulps of the computed edge.
func (m *Map) EdgeValue(r *rng.Rng, ci, spread int) (float64, bool) {
	i := ci + r.Range(-spread, spread)
	if i <= m.IMin {
		i = m.IMin + 1
	}
	if i >= m.IMax {
		i = m.IMax - 1
	}
	lb := m.M.LowerBound(i)
	if !(lb > 0) || math.IsInf(lb, 0) {
		return m.ClampIn(1), false
	}
	k := RandUlpStep(r)
	v := Ulps(lb, k)
	if v < m.Min || v > m.Max {
		return m.ClampIn(v), false
	}
	return v, k >= -8 && k <= 8
}

// RandCentreIndex picks a bin index log-uniformly over the indexable value range
// (or close to 1.0 with some probability).
func (m *Map) RandCentreIndex(r *rng.Rng) int {
	switch r.Pick(4, 3, 1, 1) {
	case 0:
		return m.M.Index(r.LogUniform(1e-3, 1e6))
	case 1:
		lo, hi := math.Max(m.Min, 1e-300), math.Min(m.Max, 1e300)
		return m.M.Index(r.LogUniform(lo, hi))
	case 2:
		return m.IMin + 1 + r.Intn(5)
	default:
		return m.IMax - 1 - r.Intn(5)
	}
}

// RandValue draws a positive trackable value for m: class mix of edge values,
// binade boundaries, range ends, small integers, clustered log-normal.
// The returned class is one of "edge","binade","end","int","cluster".
func (m *Map) RandValue(r *rng.Rng, ci int, sigma float64) (float64, string) {
	switch r.Pick(5, 2, 1, 2, 5) {
	case 0:
		v, near := m.EdgeValue(r, ci, 40)
		if near {
			return v, "edge"
		}
		return v, "cluster"
	case 1:
		c := m.M.LowerBound(clampInt(ci, m.IMin+1, m.IMax-1))
		if !(c > 0) {
			c = 1
		}
		e := math.Floor(math.Log2(c)) + float64(r.Range(-3, 3))
		v := Ulps(math.Ldexp(1, int(e)), RandUlpStep(r))
		if v < m.Min || v > m.Max {
			return m.ClampIn(v), "end"
		}
		return v, "binade"
	case 2:
		if r.Bool() {
			return Ulps(m.Min, r.Range(0, 6)*r.Range(0, 1)+r.Range(0, 3)), "end"
		}
		return Ulps(m.Max, -(r.Range(0, 6)*r.Range(0, 1) + r.Range(0, 3))), "end"
	case 3:
		v := float64(r.Range(1, 20))
		if v < m.Min || v > m.Max {
			return m.ClampIn(v), "end"
		}
		return v, "int"
	default:
		c := m.M.LowerBound(clampInt(ci, m.IMin+1, m.IMax-1))
		if !(c > 0) || math.IsInf(c, 0) {
			c = 1
		}
		v := c * math.Exp(sigma*r.Norm())
		if !(v >= m.Min) || !(v <= m.Max) {
			return m.ClampIn(v), "end"
		}
		return v, "cluster"
	}
}

func clampInt(x, lo, hi int) int {
	if x < lo {
		return lo
	}
	if x > hi {
		return hi
	}
	return x
}

// InBin reports whether y is, up to slack, the representative value of the bin holding x:
// |y-x| <= (alpha+slack)*|x| for x != 0.
func (m *Map) Within(y, x float64) bool {
	if x == 0 {
		return y == 0
	}
	if (y < 0) != (x < 0) || y == 0 {
		return false
	}
	return math.Abs(y-x) <= (m.M.RelativeAccuracy()+m.Slack(x))*math.Abs(x)
}

// Matches is Within extended with the zero-bucket convention: magnitudes below
// MinIndexableValue count as 0; exactly at MinIndexableValue either treatment is accepted.
func (m *Map) Matches(y, x float64) bool {
	ax := math.Abs(x)
	if ax < m.Min {
		return y == 0
	}
	if ax == m.Min {
		return y == 0 || m.Within(y, x)
	}
	return m.Within(y, x)
}

// SameParams tells whether two mappings have the same kind and (up to 1e-12 relative) the same
// base and index offset - the harness's own notion of "equal mapping", independent of the library's Equals.
func SameParams(a, b *Map) bool {
	close := func(x, y float64) bool {
		if x == y {
			return true
		}
		return math.Abs(x-y) <= 1e-12*math.Max(math.Abs(x), math.Abs(y))
	}
	return a.Kind == b.Kind && close(a.Gamma, b.Gamma) && close(a.Offset, b.Offset)
}
