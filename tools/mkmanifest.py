#!/usr/bin/env python3
"""Regenerates /verif/MANIFEST.json from the table below (kept in one place so that the
manifest stays valid while checks are added)."""
import json, os, subprocess, sys
ROOT = os.path.dirname(os.path.dirname(os.path.abspath(__file__)))

# id -> (category, technique, level text, level note, design ref)
CHECKS = {
 "C01": ("exploration", "reference-model monitor (sorted multiset, exact rational rank) over seeded hostile inputs",
         "Runtime monitoring: the real sketch is driven with seeded hostile multisets (bin-edge values +-k ulps, binade boundaries, range ends, sub-minimum magnitudes) over all mapping kinds, alpha in [1e-6,0.99], offsets and the three non-collapsing stores; every answer at every k/(n-1), its float neighbours, 0, 1 and random q is compared with the order statistics at floor/ceil of the exact rank. Held on the executions produced, not a proof.",
         "Trusted: the harness's own sort and big.Rat rank; calibrated float slack 64*u(v) (DESIGN §3.6); |v|==MinIndexableValue accepted either way.", "§4 C01"),
 "C02": ("exploration", "differential monitor (single sketch vs merge tree) with argument snapshots",
         "Runtime monitoring: one input is fed to a single sketch and to 1-8 parts of independently chosen store kinds (plain and exact-summary variants), merged along random trees by MergeWith or DecodeAndMergeWith; the full observation (bins, zero weight, count, extremes, quantile grid) must be bitwise identical; the argument's observation is compared before/after each merge; empty merges must be no-ops; every earlier argument is re-observed after its receiver was used further (aliasing).",
         "Trusted: unit weights make all sums exact; observation = public API only.", "§4 C02"),
 "C03": ("exploration", "probe monitor on Index/Value/LowerBound with calibrated float slack",
         "Runtime monitoring: every mapping kind x alpha x offset regime (built from alpha and from (gamma, offset)) is probed at ~1500 values per mapping placed on computed bin edges +-k ulps, binade boundaries and both range ends, in increasing order; accuracy, monotonicity, containment, the int32 bound and the reported accuracy are asserted on each probe.",
         "Trusted: slack 64*u(v) (10x the worst excess observed on the unchanged tree); LowerBound(i+1) only required while bin i+1 is indexable.", "§4 C03"),
 "C04": ("exploration", "online reference-model monitor (exact index->weight map) after every store operation, layout events via hook",
         "Runtime monitoring: seeded operation histories on dense/sparse/paginated stores (adds, weighted adds, bins, merges from all 5 kinds, copies, clears, reweights, encode/decode into fresh and into existing stores, proto through the helper and the paginated store's own method, at once or with the message kept and merged some events later; indexes up to both ends of int32) with every observer (asked in a per-case order; half of the walks are quiet, i.e. most events are not followed by any query) (TotalCount, IsEmpty, Min/MaxIndex, ForEach incl. early stop, Bins, KeyAtRank on exact cumulative boundaries) compared with the mathematical map after every event; the hook shows which internal paths (array shift/grow, page allocation, compaction, capacity reuse) were reached.",
         "Trusted: dyadic weights under an exactness budget (float arithmetic exact); collapsing arguments follow C05's model.", "§4 C04"),
 "C05": ("exploration", "online reference-model monitor (fold model) + bound assertions via layout hook; sketch-level accuracy monitor",
         "Runtime monitoring: the C04 histories on collapsing stores for N in {1..2048} incl. merges of wider stores into empty/cleared receivers; content compared with the folded exact map after every event; #bins<=N, span<=N and (hook) allocated length<=N asserted; collapsing sketches checked against the alpha bound on retained bins and the edge-bin rule otherwise.",
         "Trusted: fold model (edge = extreme -/+ (N-1)); dyadic weights.", "§4 C05"),
 "C06": ("exploration", "round-trip / merge-equivalence monitor with bitwise observation equality and fold model",
         "Runtime monitoring: sketches reached by seeded histories (both variants, 5 store kinds) are encoded after arbitrary buffer prefixes with the mapping embedded or omitted and decoded into all 5 target kinds; bins are compared through the (fold) model, full observations bitwise; DecodeAndMergeWith(Encode(Y)) is compared with MergeWith(Y) on twins, concatenations of 2-4 encodings with sequential merges; arbitrary float weights are checked per bin within ulp(v+1); sub-cases: very fine mappings with bins more than 2^31 apart, weights multiple of 2^-52 (9-byte varfloats), exact-summary encodings read by the plain decoder.",
         "Trusted: dyadic weights survive the (v+1)-1 transform exactly; models of C04/C05.", "§4 C06"),
 "C07": ("exploration", "independent reference codec (written from the format documentation) in both directions",
         "Runtime monitoring: (1) every encoding produced by the implementation is parsed by an independent codec written only from flag.go/encoding.go documentation and its content compared with the model (mapping parameters bitwise, zero weight, bins, count/sum/min/max); (2) streams generated from the documented grammar (any block order, 3 layouts, N=0, negative/zero/large strides, repeated indexes and blocks, statistics blocks) are decoded by all decoders into every store kind and compared with the content the documentation assigns; plain decoder on exact-summary encodings.",
         "Trusted: the reference codec's reading of the documentation; counts in generated streams are dyadic.", "§4 C07"),
 "C08": ("fault_enumeration", "fault injection on byte streams at the API boundary: every cut point, undefined flags at every block boundary, mapping mismatch/missing",
         "Fault enumeration over each generated valid encoding: EVERY truncation point, undefined flags substituted at every block boundary (16 sampled per boundary in quick, all ~240 in thorough), mismatching and missing mappings, into rotating store kinds and both decoders, fresh and non-empty receivers; block boundaries come from the independent parser; success is only accepted at block boundaries with exactly the content of the complete blocks. Exhaustive per encoding over cut points, sampled over encodings.",
         "Trusted: independent parser for block boundaries; a failed decode need not be atomic; panics are caught in-process, process-fatal errors by worker isolation.", "§4 C08"),
 "C09": ("exploration", "protobuf round-trip monitor (bitwise bins) and stream-vs-message equality (proto.Equal)",
         "Runtime monitoring: sketches with arbitrary non-negative float64 weights, negatives, cleared-then-refilled stores are converted ToProto -> Marshal -> Unmarshal -> FromProtoWithStoreProvider into all 5 store kinds (bins and zero weight compared bit for bit), the streaming writer's bytes are unmarshalled and compared with ToProto() by proto.Equal, and hand-built messages mixing sparse and contiguous bins (also with an absent store, also at both ends of the int32 index range) are checked to add up and the rebuilt sketch is written again by both writers; sources may be reweighted, wide, hold bins that underflowed to zero, and are written before or after answering queries, either writer first; the message taken must stay unchanged while its source goes on; rebuilding goes through FromProtoWithStoreProvider, FromProto and the paginated store's own MergeWithProto.",
         "Trusted: google.golang.org/protobuf v1.32.0 as the reference (un)marshaller.", "§4 C09"),
 "C10": ("exploration", "reference-model monitor (exact multiset of (value, weight), 2400-bit sum) after every event",
         "Runtime monitoring: seeded histories over every mutating operation of the exact-summary sketch (incl. weight-0 adds, rejected calls through every entry point, merges, decodes, copies, clears, reweights, ChangeMapping, round trips), with copies that stay alive and are merged in both directions (each checked by the same oracle), quiet stretches without queries, and adversarial summation sequences; after every (queried) event count, emptiness, min, max are compared exactly, the sum against a calibrated compensated-summation bound, and every quantile against clamp(plain answer, min, max).",
         "Trusted: dyadic weight budget; sum bound (16+8L) 2^-53 sum|v w| calibrated at <= 5.2 units on the unchanged tree; sparse-store totals with non-dyadic weights are order dependent (equality checks skipped there).", "§4 C10"),
 "C11": ("exploration", "reference-model monitor (weighted multiset with cumulative-weight intervals)",
         "Runtime monitoring: multisets of (value, dyadic weight) with total weight from 2^-10 up (half below 1), reached by weighted adds or reweighting down, also on an object reused after Clear and on a copy that absorbs the rest of the items, on all store and mapping kinds; each quantile answer must be within alpha of an absorbed value whose cumulative interval is within one unit of weight of q(W-1), within [min,max], and never from an empty side.",
         "Trusted: float slack 64*u; cases where a bounded store folded weight are skipped (C05).", "§4 C11"),
 "C12": ("exploration", "coherence monitor over every observer after every event",
         "Runtime monitoring: seeded histories (merge/copy/clear/decode/reweight) on both variants and all 5 store kinds with special data shapes (all-negative, all-zero, zero+negative, single, sub-minimum), refused calls and all-zero blocks in between, copies that stay alive and are merged in both directions (each checked), quiet stretches without queries; after every (queried) event: count identity, emptiness, min/max in the true (or clamped) extreme bins, monotone quantiles within [min,max], batch==single, approximate sum within alpha for same-signed data, iteration totals and early stop call counts.",
         "Trusted: value-level model; clamped extremes derived from the fold model of C05.", "§4 C12"),
 "C13": ("exploration", "refused-call monitor: documented error + full observation unchanged",
         "Runtime monitoring: on sketches in reachable states (both variants) every class of invalid call (NaN/Inf/out-of-range values incl. neighbours of MaxIndexableValue, negative weights, invalid quantiles single and batch, empty-sketch queries incl. sketches whose every weight underflowed to zero, mismatched merges, non-positive reweights) must return the documented error and leave the observation bitwise unchanged; valid boundary inputs must be accepted; constructors are swept over finite parameters for error-or-usable-object.",
         "Trusted: sentinel errors exported by the package; NaN weights/factors/constructor parameters are outside the contract and not sent.", "§4 C13"),
 "C14": ("exploration", "twin monitor (read-perturbed vs quiet, copy vs sequential replay) + Go race detector as aliasing monitor",
         "Runtime monitoring: twins receive the same mutation history, one also receives random read-only calls (incl. Encode/ToProto/EncodeProto/Copy/being a merge or ChangeMapping source, also for unit changes so drastic that content falls under the new mapping's range); observations must be identical across every read and between twins; copies must equal their originals and stay independent under disjoint suffixes. Second pass with the race-detector build: an object and its Copy hammered by two unsynchronised goroutines; any DATA RACE report is shared mutable state.",
         "Trusted: Go race detector (reports only races it observes); dyadic weights make observations bitwise comparable.", "§4 C14"),
 "C15": ("exploration", "twin monitor (cleared-and-reused vs freshly constructed) after every event; store level via exact model",
         "Runtime monitoring: X = H1; Clear; H2 against Y = new; H2 with the observation compared after Clear and after every event of H2, H2 in other index ranges, repeated clear/reuse cycles, decode/merge as first event, Clear issued after every weight underflowed to zero, interrupted decodes (cut payloads) applied to both twins; sketch level on both variants and all 5 store kinds, store level against the exact model of a fresh store with all observers; the hook shows retained capacity being reused and collapsed stores being cleared.",
         "Trusted: dyadic weights; fold model for bounded stores.", "§4 C15"),
 "C16": ("exploration", "reference-model monitor (scaled model) + differential against a sketch rebuilt with scaled weights",
         "Runtime monitoring: after a seeded history (incl. identity conversions and copies that stay alive, are reweighted on their own and merged with the sketch), Reweight(w) with dyadic w (<1, =1, >1) on both variants and all 5 store kinds; every bin, zero weight and count must equal the model scaled by w exactly, exact sum within bound, exact min/max unchanged, and the observation must equal that of a second real sketch fed the same items with weights*w; the hook shows paginated stores holding buffered and paged indexes at the call.",
         "Trusted: dyadic weight budget.", "§4 C16"),
 "C17": ("exploration", "transport-condition monitor (interval Hall condition) + combined-accuracy quantile oracle",
         "Runtime monitoring: sources (both variants, both signs) converted over all 9 ordered mapping-kind pairs x alpha pairs with scales in [1e-3,1e3] incl. bin-aligned factors, 40% of the sources converted before answering any query; result mapping, untouched source, zero weight, total weight, absence of non-positive bins, Min/MaxIndex, the per-boundary transport inequalities, the combined-accuracy quantile rule, identity = independent exact copy, and exact statistics rescaling are asserted.",
         "Trusted: classification tolerance 1e-9 at bin bounds and weight slivers 1e-9 W; values well inside both ranges.", "§4 C17"),
 "C18": ("exploration", "independent reference codec + complete sweep of all byte strings of length <= 2 + seeded hostile strings + fresh-process probes + Go race detector pass over the codec functions",
         "Runtime monitoring: all primitive codecs are compared with an independent reference on 2^k+-d values, every bit-length class, extremes, random 64-bit patterns (as uint, int and float bits) with arbitrary prefixes/trailers, every strict prefix, and on every byte string of length <= 2 (complete) plus random strings up to 12 bytes: bytes, values, sizes, framing, EOF-without-consumption, int32 range, no panic, <= 9 bytes.",
         "Trusted: reference codec; the <=2-byte sweep is the only complete enumeration.", "§4 C18"),
 "C19": ("exploration", "serialize/restore monitor with bitwise probe agreement and (in)equality matrix",
         "Runtime monitoring: each mapping of the grid (incl. non-default offsets) goes through binary Encode/Decode, ToProto/Marshal/Unmarshal/FromProto and EncodeProto/Unmarshal/FromProto; the restored mapping must be Equals both ways and agree bitwise on Index (300 probes), Value, LowerBound, accuracy and range; reflexivity, symmetry and inequality across kinds, accuracies >=0.1% apart and clearly different offsets are asserted on pairs.",
         "Trusted: protobuf library.", "§4 C19"),
 "C20": ("exploration", "reference-model monitor (own sort, exact rank, 2200-bit sum)",
         "Runtime monitoring: interleaved Add/query/Merge histories on the dataset helper with duplicates, negatives, unsorted arrival and additions after queries, whole checkpoints and single queries asked on their own right after additions, small value pools; lower/upper quantiles compared with the order statistics at floor/ceil of the rank (float and exact product both accepted), NaN rules, exact min/max/count, sum bound, merge == adding all.",
         "Trusted: q=NaN is outside the stated domain.", "§4 C20"),
}

# appended to the level texts: what rounds 7-8 of the seeded changes and the coverage measurement added
LATER = {
 "C07": " After every grammar stream the extreme indexes of both stores must be those of the bins that hold weight (zero-count blocks move no extreme).",
 "C02": " A quarter of the merges go into a copy of the receiver (accumulator idiom); the part the copy came from is re-observed at the end. In 15% of the cases several parts are copies of one used-and-cleared prototype.",
 "C04": " Kept protobuf messages are consumed up to three times, also into cleared or new stores that then go on in place; hand-written blocks in the three documented layouts (signed deltas, negative/zero strides, repeats) are decoded into the live store.",
 "C05": " The walk also consumes kept protobuf messages several times and decodes hand-written blocks with negative/zero strides into collapsed receivers.",
 "C06": " 40% of the concatenations are decoded into stores recycled by the provider (earlier decode, queried, cleared). The bytes of the caller's array beyond the appended encoding must stay untouched.",
 "C08": " Receivers are fresh, non-empty, or used over the source's index range and cleared (retained memory). Two different mapping blocks in one stream (no mapping supplied) must be refused.",
 "C09": " Half of the sources are converted again after a decode replaced their mapping by an Equals-but-not-identical one (earlier message scribbled on); half of the rebuilt sketches go on and the same message is read a second time. The stores of an earlier message are edited; later messages of the sketch and of a brand-new empty sketch must still agree with the streaming writer.",
 "C10": " Refused merges (also into an empty or just cleared receiver) are among the rejected calls; exact sketches also go through the protobuf form with statistics rebuilt by NewSummaryStatisticsFromData / NewDDSketchWithExactSummaryStatisticsFromData; one case in ten drives stat.SummaryStatistics directly (Add, AddToCount/AddToSum, MergeWith, Reweight, Rescale, Copy, Clear, FromData); same-signed sums beyond the float64 range must be the infinity of that sign.",
 "C11": " Every answer of the batch query is judged like a single answer; a fifth of the multisets receive their tail as an encoding decoded after a query. The copy that goes its own way is reweighted before anything else in half of the cases.",
 "C12": " Identity conversions (equal mapping, scale 1) are part of the histories. Same-signed sums near or beyond the float64 range are never NaN (infinity of their sign when clearly out of range).",
 "C13": " Non-positive Reweight factors are also sent to the sketch's two stores; merges of very coarse mappings (bases 1e3..1e15) must be refused; whether a merge is refused must not depend on merges accepted before (near-twin chains). A quarter of the sketches first decode a near-twin mapping: refusal limits follow the mapping the sketch then carries.",
 "C14": " The race-detector pass covers more than copies: receiver and argument of a merge into an empty sketch, source and result of an identity conversion, a sketch and the one decoded from its encoding, a sketch and the one rebuilt from its protobuf message (message re-read meanwhile).",
 "C15": " The store walk also consumes kept protobuf messages several times and decodes hand-written blocks.",
 "C16": " 70% of the sketches are queried right before the call, 30% receive a refused Reweight first, 60% go on afterwards (reweighted sketch and scaled-adds twin absorb the same further additions and are compared again); sparse-store exact sketches are pushed beyond the float64 range by the reweighting (sum must be the infinity of its sign). GetSum is asked before the call and the plain variant's sum compared with the twin's.",
 "C17": " Half of the results are queried through the batch entry point. In the identity case the result (or source) is reweighted before anything else.",
 "C18": " The first case of every worker process probes one function family before anything else of the package has run; a race-instrumented pass lets 4x8 goroutines encode/decode into their own buffers (round trips verified, any DATA RACE report is a violation). Bytes of the caller's array beyond the appended encoding must stay untouched.",
 "C19": " Near twins (base/offset differing in the last bits; zero vs tiny offset): Equals symmetric, each read back as itself right after its twin in all three forms; messages are values (edited/recycled, then ToProto again); the second mapping of the case is read back in the same process. Equals gates MergeWith, DecodeAndMergeWith and the decode of both encodings from one stream.",
 "C20": " A dataset is merged with itself and the same argument twice; same-signed values near the top of the float64 range (overflowed sum = infinity of that sign).",
}

NOT_YET = {}

def main():
    props = [json.loads(l) for l in open(os.path.join(ROOT, "properties.jsonl"))]
    ids = [p["id"] for p in props]
    hooks_commits = subprocess.run(["git", "-C", "/repo", "log", "--format=%H %s"], capture_output=True, text=True).stdout.splitlines()
    hook_shas = [l.split()[0] for l in hooks_commits if "verif hook" in l]
    checks = []
    na = []
    for i in ids:
        if i in CHECKS:
            cat, tech, text, note, ref = CHECKS[i]
            text = text + LATER.get(i, "")
            checks.append({
                "property_id": i,
                "quick_cmd": f"./check {i} quick",
                "thorough_cmd": f"./check {i} thorough",
                "evidence_file": f"/verif/evidence/{i}.json",
                "replay_cmd_template": f"./check {i} --replay {{path}}",
                "engine": "vh",
                "level_claimed": {"category": cat, "text": text, "design_ref": "DESIGN.md " + ref},
                "level_note": note,
                "technique": "runtime monitoring: " + tech,
            })
        else:
            na.append({"property_id": i, "reason": NOT_YET.get(i, "check not built yet in this revision (runtime monitor planned, see DESIGN.md §4); not claimed until it exists")})
    m = {
        "version": 1,
        "setup_cmd": "./check build",
        "hooks": {
            "guard": "verif (Go build tag)",
            "enable": "go build -tags verif (the harness module replaces github.com/DataDog/sketches-go with /repo)",
            "baseline_off_cmd": "cd /repo && GOFLAGS=-mod=mod GOPROXY=off GOSUMDB=off GOTOOLCHAIN=local go test -mod=mod -json -vet=off -count=1 -timeout 25m ./...",
            "source_commits": hook_shas,
            "add_only": True,
        },
        "engines": [{"name": "vh", "path": "/verif/harness", "serves_properties": sorted(CHECKS), "kind_free_text": "Go harness: seeded workload generators, monitor wrappers with shadow models, process-isolated workers, witness replay; race-detector build (C14 aliasing pass, C18 codec pass) for C14"}],
        "checks": checks,
        "notes": "All checks are runtime monitors over executions of the real code (see DESIGN.md). Exit 0 held / 1 violation / 2 inconclusive. VERIF_SEED selects the PRNG stream; case lists are PRNG-determined, never time-budgeted.",
        "not_applicable": na,
    }
    json.dump(m, open(os.path.join(ROOT, "MANIFEST.json"), "w"), indent=1)
    print("MANIFEST.json:", len(checks), "checks,", len(na), "not applicable")

main()
