// Package mon holds the monitors: wrappers that forward operations to the real
// library objects at the public API boundary, keep the shadow model in step,
// derive layout events from the introspection hook, and evaluate the oracles.
package mon

import (
	"fmt"
	"math"
	"sort"

	enc "github.com/DataDog/sketches-go/ddsketch/encoding"
	"github.com/DataDog/sketches-go/ddsketch/pb/sketchpb"
	"github.com/DataDog/sketches-go/ddsketch/store"

	"verif/harness/internal/core"
	"verif/harness/internal/gen"
	"verif/harness/internal/model"
	"verif/harness/internal/wire"
)

// KV is one observed bin.
type KV struct {
	K int
	W float64
}

// ForEachBins collects the bins reported by ForEach, sorted by index. dup reports
// whether an index was reported more than once, nonpos whether a weight <= 0 was reported.
func ForEachBins(st store.Store) (bins []KV, dup bool, nonpos bool) {
	seen := map[int]bool{}
	st.ForEach(func(index int, count float64) bool {
		if seen[index] {
			dup = true
		}
		seen[index] = true
		if !(count > 0) {
			nonpos = true
		}
		bins = append(bins, KV{index, count})
		return false
	})
	sort.Slice(bins, func(i, j int) bool { return bins[i].K < bins[j].K })
	return
}

// ChanBins drains the Bins() channel completely.
func ChanBins(st store.Store) (bins []KV) {
	for b := range st.Bins() {
		bins = append(bins, KV{b.Index(), b.Count()})
	}
	return
}

func fmtBins(b []KV) string {
	if len(b) > 12 {
		return fmt.Sprintf("%v...(%d bins)", b[:12], len(b))
	}
	return fmt.Sprint(b)
}

func modelBins(m *model.Bins) []KV {
	ks := m.Keys()
	out := make([]KV, len(ks))
	for i, k := range ks {
		out[i] = KV{k, m.W[k]}
	}
	return out
}

func equalBins(a, b []KV) bool {
	if len(a) != len(b) {
		return false
	}
	for i := range a {
		if a[i] != b[i] {
			return false
		}
	}
	return true
}

// CheckOpts selects how much of the observer surface is exercised.
type CheckOpts struct {
	Bins     bool // also drain Bins()
	Ranks    bool // probe KeyAtRank at every cumulative boundary
	MaxRanks int  // cap on boundaries probed (0 = all)
}

// CheckStore compares every observer of st with the model m. tag names the
// store in violation classes (its kind).
func CheckStore(c *core.Ctx, tag string, st store.Store, m *model.Bins, o CheckOpts) {
	c.Count("oracle.store_checks", 1)
	want := modelBins(m)
	wantTotal := m.Total()

	// the observers are asked in an order that varies from check to check: whichever comes first finds the
	// store as the last mutation left it (unsorted buffer, pending compaction)
	var got []KV
	groups := []func(){
		func() {
			if got := st.TotalCount(); got != wantTotal {
				c.Failf("TotalCount:"+tag, "TotalCount()=%v, model total=%v (diff %g)", got, wantTotal, got-wantTotal)
			}
			if got := st.IsEmpty(); got != m.Empty() {
				c.Failf("IsEmpty:"+tag, "IsEmpty()=%v, model empty=%v", got, m.Empty())
			}
			minI, minErr := st.MinIndex()
			maxI, maxErr := st.MaxIndex()
			if m.Empty() {
				if minErr == nil || maxErr == nil {
					c.Failf("MinMaxIndex.empty:"+tag, "MinIndex/MaxIndex on an empty store returned no error (%d,%v / %d,%v)", minI, minErr, maxI, maxErr)
				}
			} else {
				wmin, _ := m.Min()
				wmax, _ := m.Max()
				if minErr != nil || minI != wmin {
					c.Failf("MinIndex:"+tag, "MinIndex()=%d,%v; model min=%d", minI, minErr, wmin)
				}
				if maxErr != nil || maxI != wmax {
					c.Failf("MaxIndex:"+tag, "MaxIndex()=%d,%v; model max=%d", maxI, maxErr, wmax)
				}
			}
		},
		func() {
			var dup, nonpos bool
			got, dup, nonpos = ForEachBins(st)
			if dup {
				c.Failf("ForEach.dup:"+tag, "ForEach reported an index more than once: %s", fmtBins(got))
			}
			if nonpos {
				c.Failf("ForEach.nonpositive:"+tag, "ForEach reported a bin with weight <= 0: %s", fmtBins(got))
			}
			if !equalBins(got, want) {
				c.Failf("ForEach.content:"+tag, "ForEach bins %s != model %s", fmtBins(got), fmtBins(want))
			}
			if o.Ranks && len(want) > 0 {
				// iteration stops as soon as the callback asks for it (documented on Store.ForEach)
				k := 1 + int(c.R.U64()%uint64(len(want)+1))
				calls := 0
				st.ForEach(func(int, float64) bool { calls++; return calls >= k })
				wantCalls := k
				if len(want) < wantCalls {
					wantCalls = len(want)
				}
				c.Count("oracle.foreach_stop_checks", 1)
				if calls != wantCalls {
					c.Failf("ForEach.stop:"+tag, "ForEach with a callback stopping at call %d was called %d times (%d bins)", k, calls, len(want))
				}
			}
		},
		func() {
			if o.Bins {
				cb := ChanBins(st)
				sort.SliceStable(cb, func(i, j int) bool { return cb[i].K < cb[j].K })
				if !equalBins(cb, want) {
					c.Failf("Bins.content:"+tag, "Bins() stream %s != model %s", fmtBins(cb), fmtBins(want))
				}
				c.Count("oracle.bins_streams", 1)
			}
		},
		func() {
			if o.Ranks && len(want) > 0 {
				probe := func(r float64) {
					wk, _ := m.KeyAtRank(r)
					if gk := st.KeyAtRank(r); gk != wk {
						c.Failf("KeyAtRank:"+tag, "KeyAtRank(%v)=%d, model=%d (bins %s)", r, gk, wk, fmtBins(want))
					}
					c.Count("oracle.rank_probes", 1)
				}
				probe(-1)
				probe(0)
				probe(wantTotal)
				probe(wantTotal + 10)
				step := 1
				if o.MaxRanks > 0 && len(want) > o.MaxRanks {
					step = len(want)/o.MaxRanks + 1
				}
				cum := 0.0
				for i, kv := range want {
					prev := cum
					cum += kv.W
					if i%step != 0 {
						continue
					}
					probe(cum) // exactly on the boundary: must go to the next bin
					c.Count("oracle.rank_probes_on_boundary", 1)
					probe(math.Nextafter(cum, 0))
					probe(prev + kv.W/2)
				}
			}
		},
	}
	z := nextOrder()
	for i := len(groups) - 1; i > 0; i-- {
		j := int((z >> uint(8*i)) % uint64(i+1))
		groups[i], groups[j] = groups[j], groups[i]
	}
	for _, g := range groups {
		g()
	}
	if got == nil {
		got = []KV{}
	}
	if m.Fold != model.NoFold {
		if len(got) > m.N {
			c.Failf("bound.bins:"+tag, "%d non-empty bins > limit %d", len(got), m.N)
		}
		if len(got) > 0 && got[len(got)-1].K-got[0].K+1 > m.N {
			c.Failf("bound.span:"+tag, "bins span %d..%d wider than limit %d", got[0].K, got[len(got)-1].K, m.N)
		}
		l := store.VerifLayoutOf(st)
		if l.BinsLen > l.MaxNumBins {
			c.Failf("bound.memory:"+tag, "allocated array length %d > maxNumBins %d", l.BinsLen, l.MaxNumBins)
		}
		c.Count("oracle.bound_checks", 1)
	}
}

// ---------- MonStore ----------

// MonStore is a store under monitoring: the real store, its spec and its shadow model.
type MonStore struct {
	C    *core.Ctx
	Spec gen.StoreSpec
	St   store.Store
	M    *model.Bins
	Name string

	cleared bool // Clear happened and nothing was added since (for capacity-reuse events)
}

func foldModeOf(sp gen.StoreSpec) (int, int) {
	switch sp.Kind {
	case gen.SCLow:
		return model.FoldLowest, sp.N
	case gen.SCHigh:
		return model.FoldHighest, sp.N
	}
	return model.NoFold, 0
}

func NewMonStore(c *core.Ctx, sp gen.StoreSpec, name string) *MonStore {
	mode, n := foldModeOf(sp)
	var m *model.Bins
	if mode == model.NoFold {
		m = model.NewBins()
	} else {
		m = model.NewFold(mode, n)
	}
	return &MonStore{C: c, Spec: sp, St: sp.New(), M: m, Name: name}
}

// layoutEvents derives internal events from two layout snapshots.
func (s *MonStore) layoutEvents(op string, before, after store.VerifLayout, readOnly bool) {
	c := s.C
	ev := func(name string) {
		c.Count("layout."+name, 1)
		c.Count("layout.any", 1)
		c.Logf("   [layout %s: %s]", s.Name, name)
	}
	switch after.Kind {
	case "dense", "collapsing_lowest", "collapsing_highest":
		if after.BinsLen > before.BinsLen {
			if before.BinsLen == 0 && before.BinsCap > 0 {
				ev("reuse_capacity_after_clear")
			} else if before.BinsLen == 0 {
				ev("array_first_alloc")
			} else {
				ev("array_grow")
			}
		}
		if before.BinsLen > 0 && after.Offset != before.Offset {
			if after.Offset < before.Offset {
				ev("array_shift_for_lower_index")
			} else {
				ev("array_shift_for_higher_index")
			}
		}
		if !before.IsCollapsed && after.IsCollapsed {
			ev("collapse")
		}
		if before.IsCollapsed && !after.IsCollapsed {
			ev("collapsed_flag_reset")
		}
	case "paginated":
		if after.AllocatedPages > before.AllocatedPages {
			ev("page_alloc")
			if before.PagesUnused && before.PagesLen > 0 {
				ev("reuse_pages_after_clear")
			}
		}
		if after.PagesLen > before.PagesLen && before.PagesLen > 0 {
			if after.MinPageIndex < before.MinPageIndex {
				ev("pagetable_extend_left")
			} else {
				ev("pagetable_extend_right")
			}
		}
		if after.BufferLen < before.BufferLen && op != "Clear" && op != "Reweight" {
			ev("buffer_compaction")
			if readOnly {
				ev("read_compacted")
			}
		}
		if readOnly && !before.BufferSorted && after.BufferSorted {
			ev("read_sorted_buffer")
		}
		if op == "Reweight" && before.BufferLen > 0 && before.AllocatedPages > 0 {
			ev("reweight_with_buffer_and_pages")
		}
	}
}

func (s *MonStore) around(op string, readOnly bool, f func()) {
	before := store.VerifLayoutOf(s.St)
	s.C.Guard(op+":"+s.Spec.KindName(), f)
	after := store.VerifLayoutOf(s.St)
	s.layoutEvents(op, before, after, readOnly)
	s.C.Count("event."+op, 1)
}

func (s *MonStore) Add(index int) {
	s.C.Logf("%s.Add(%d)", s.Name, index)
	s.around("Add", false, func() { s.St.Add(index) })
	s.M.Add(index, 1)
}

func (s *MonStore) AddWithCount(index int, w float64) {
	s.C.Logf("%s.AddWithCount(%d, %v)", s.Name, index, w)
	s.around("AddWithCount", false, func() { s.St.AddWithCount(index, w) })
	s.M.Add(index, w)
}

func (s *MonStore) AddBin(index int, w float64) {
	s.C.Logf("%s.AddBin(NewBin(%d, %v))", s.Name, index, w)
	b, err := store.NewBin(index, w)
	if err != nil || b == nil {
		s.C.Failf("NewBin.rejected", "NewBin(%d,%v) returned %v", index, w, err)
		return
	}
	s.around("AddBin", false, func() { s.St.AddBin(*b) })
	s.M.Add(index, w)
}

// MergeWith merges o into s. The argument must be unchanged afterwards.
func (s *MonStore) MergeWith(o *MonStore) {
	s.C.Logf("%s.MergeWith(%s)  [%s <- %s]", s.Name, o.Name, s.Spec, o.Spec)
	s.around("MergeWith", false, func() { s.St.MergeWith(o.St) })
	s.M.Merge(o.M)
	s.C.Count("merge."+s.Spec.KindName()+"<-"+o.Spec.KindName(), 1)
}

func (s *MonStore) Copy(name string) *MonStore {
	s.C.Logf("%s := %s.Copy()", name, s.Name)
	var cp store.Store
	s.around("Copy", true, func() { cp = s.St.Copy() })
	if cp == nil {
		cp = s.Spec.New()
	}
	return &MonStore{C: s.C, Spec: s.Spec, St: cp, M: s.M.Clone(), Name: name}
}

func (s *MonStore) Clear() {
	s.C.Logf("%s.Clear()", s.Name)
	s.around("Clear", false, func() { s.St.Clear() })
	s.M.Clear()
}

func (s *MonStore) Reweight(f float64) {
	s.C.Logf("%s.Reweight(%v)", s.Name, f)
	var err error
	s.around("Reweight", false, func() { err = s.St.Reweight(f) })
	if err != nil {
		s.C.Failf("Reweight.error:"+s.Spec.KindName(), "Reweight(%v) returned %v", f, err)
		return
	}
	s.M.Scale(f)
}

// EncodeInto encodes s (read-only for the represented map) and decodes the bytes
// with the documented flag loop into a fresh store of spec target.
func (s *MonStore) EncodeDecode(target gen.StoreSpec, name string) *MonStore {
	s.C.Logf("%s := decode(%s.Encode(positive))  [%s -> %s]", name, s.Name, s.Spec, target)
	var b []byte
	s.around("Encode", true, func() { s.St.Encode(&b, enc.FlagTypePositiveStore) })
	t := NewMonStore(s.C, target, name)
	s.C.Guard("Decode:"+target.KindName(), func() {
		rest := b
		for len(rest) > 0 {
			flag, err := enc.DecodeFlag(&rest)
			if err != nil {
				s.C.Failf("store.decode.flag", "DecodeFlag: %v", err)
				return
			}
			if flag.Type() != enc.FlagTypePositiveStore {
				s.C.Failf("store.encode.flagtype", "store encoded a block with flag type %v", flag.Type())
				return
			}
			if err := t.St.DecodeAndMergeWith(&rest, flag.SubFlag()); err != nil {
				s.C.Failf("store.decode.error:"+target.KindName(), "DecodeAndMergeWith: %v", err)
				return
			}
			s.C.Count("decode.blocks", 1)
		}
	})
	t.M.Merge(s.M)
	s.C.Count("event.Decode", 1)
	s.C.Count("encdec."+s.Spec.KindName()+"->"+target.KindName(), 1)
	return t
}

// EncodeInto encodes s and decodes the bytes into the existing store t (decode-into-non-empty == merge).
func (s *MonStore) EncodeInto(t *MonStore) {
	s.C.Logf("%s.DecodeAndMergeWith(%s.Encode())  [%s <- %s]", t.Name, s.Name, t.Spec, s.Spec)
	var b []byte
	s.around("Encode", true, func() { s.St.Encode(&b, enc.FlagTypePositiveStore) })
	t.around("DecodeInto", false, func() {
		rest := b
		for len(rest) > 0 {
			flag, err := enc.DecodeFlag(&rest)
			if err != nil {
				s.C.Failf("store.decode.flag", "DecodeFlag: %v", err)
				return
			}
			if err := t.St.DecodeAndMergeWith(&rest, flag.SubFlag()); err != nil {
				s.C.Failf("store.decode.error:"+t.Spec.KindName(), "DecodeAndMergeWith into a non-empty store: %v", err)
				return
			}
			s.C.Count("decode.blocks", 1)
		}
	})
	t.M.Merge(s.M)
	s.C.Count("decode_into."+t.Spec.KindName()+"<-"+s.Spec.KindName(), 1)
}

// ProtoInto converts s to its protobuf message and merges it into a fresh store of spec target.
func (s *MonStore) ProtoInto(target gen.StoreSpec, name string) *MonStore {
	s.C.Logf("%s := MergeWithProto(new %s, %s.ToProto())", name, target, s.Name)
	t := NewMonStore(s.C, target, name)
	s.around("ToProto", true, func() {
		pb := s.St.ToProto()
		// the paginated store also has its own MergeWithProto method
		if bp, ok := t.St.(*store.BufferedPaginatedStore); ok && s.C.R.Bool() {
			bp.MergeWithProto(pb)
			s.C.Count("proto.via_paginated_method", 1)
		} else {
			store.MergeWithProto(t.St, pb)
		}
	})
	t.M.Merge(s.M)
	s.C.Count("event.MergeWithProto", 1)
	return t
}

// KeptProto is a protobuf message taken from a store and kept while the store goes on being used: it is a
// value of its own and must still describe the content the store had when it was taken.
type KeptProto struct {
	PB   *sketchpb.Store
	M    *model.Bins // content at the time ToProto was called (no folding: the message is not bounded)
	Uses int         // how many times it has been merged into a store so far
	From string
}

// ProtoKeep calls ToProto and keeps the message for later.
func (s *MonStore) ProtoKeep() *KeptProto {
	s.C.Logf("pb := %s.ToProto()   (kept)", s.Name)
	k := &KeptProto{From: s.Name, M: model.NewBins()}
	s.around("ToProto", true, func() { k.PB = s.St.ToProto() })
	for idx, w := range s.M.W {
		k.M.Add(idx, w)
	}
	return k
}

// MergeKeptProto merges a message taken earlier (possibly from this very store) into the store.
func (s *MonStore) MergeKeptProto(k *KeptProto) {
	s.C.Logf("MergeWithProto(%s, pb kept from %s)", s.Name, k.From)
	s.around("MergeWithProto(kept)", false, func() {
		if bp, ok := s.St.(*store.BufferedPaginatedStore); ok && s.C.R.Bool() {
			bp.MergeWithProto(k.PB)
		} else {
			store.MergeWithProto(s.St, k.PB)
		}
	})
	s.M.Merge(k.M)
}

func (s *MonStore) Check(o CheckOpts) {
	before := store.VerifLayoutOf(s.St)
	s.C.Guard("observers:"+s.Spec.KindName(), func() { CheckStore(s.C, s.Spec.KindName(), s.St, s.M, o) })
	after := store.VerifLayoutOf(s.St)
	s.layoutEvents("observe", before, after, true)
}

// DecodeBlock decodes one hand-written store block (any of the three documented bin layouts, with whatever signed
// deltas or stride its author chose) into the store: the documentation assigns it the bins blk.Bins(), added to
// what the store holds.
func (s *MonStore) DecodeBlock(blk *wire.Block) {
	bins := blk.Bins()
	s.C.Logf("%s.DecodeAndMergeWith(hand-written %s block, %d bins, first %d stride %d)", s.Name, blk.Name(), len(bins), blk.First, blk.Stride)
	b := wire.EmitBlock(nil, blk)
	s.around("DecodeBlock", false, func() {
		rest := b
		flag, err := enc.DecodeFlag(&rest)
		if err != nil {
			s.C.Failf("store.decode.flag", "DecodeFlag: %v", err)
			return
		}
		if err := s.St.DecodeAndMergeWith(&rest, flag.SubFlag()); err != nil {
			s.C.Failf("store.decode.error:"+s.Spec.KindName(), "DecodeAndMergeWith of a well-formed %s block: %v", blk.Name(), err)
			return
		}
		if len(rest) != 0 {
			s.C.Failf("store.decode.leftover:"+s.Spec.KindName(), "DecodeAndMergeWith left %d bytes of a %s block unread", len(rest), blk.Name())
		}
	})
	for _, bn := range bins {
		s.M.Add(int(bn.Index), bn.Count)
	}
	s.C.Count("decode_block."+blk.Name(), 1)
}

// MergeHandProto merges a protobuf store message written by hand (both bin forms, zero padding allowed): the
// documentation assigns it the bins given in want (index -> weight, zeros left out), added to what the store holds.
func (s *MonStore) MergeHandProto(pb *sketchpb.Store, want map[int]float64) {
	s.C.Logf("MergeWithProto(%s, hand-written message: %d sparse entries, %d contiguous counts from %d)", s.Name, len(pb.BinCounts), len(pb.ContiguousBinCounts), pb.ContiguousBinIndexOffset)
	s.around("MergeWithProto(hand-written)", false, func() {
		if bp, ok := s.St.(*store.BufferedPaginatedStore); ok && len(want)%2 == 0 {
			bp.MergeWithProto(pb)
		} else {
			store.MergeWithProto(s.St, pb)
		}
	})
	for idx, w := range want {
		s.M.Add(idx, w)
	}
	s.C.Count("event.MergeWithProto(hand-written)", 1)
}
