package props

import (
	"fmt"
	"math"

	"github.com/DataDog/sketches-go/ddsketch"
	"github.com/DataDog/sketches-go/ddsketch/pb/sketchpb"
	"github.com/DataDog/sketches-go/ddsketch/stat"
	"google.golang.org/protobuf/proto"

	"verif/harness/internal/core"
	"verif/harness/internal/gen"
	"verif/harness/internal/mon"
	"verif/harness/internal/rng"
)

// Sketch-level histories are generated as lists of abstract operations so that
// the same history can be applied to several real sketches (twins) and to models.

const (
	opAdd = iota
	opAddW
	opMerge
	opDecodeMerge
	opClear
	opReweight
	opRoundTrip // replace the sketch by Decode(Encode(sketch)) into a store of spec target
	opCopySwitch
	opProtoRoundTrip
	opChangeMapping
	// operations on companions: copies of the sketch that stay alive next to it (only through skState.apply)
	opFork          // a copy that stays alive as companion j
	opCompAdd       // companion j absorbs (v, w)
	opCompReweight  // companion j is reweighted
	opCompClear     // companion j is cleared
	opMergeFromComp // sketch.MergeWith(companion j); the companion stays in use
	opMergeIntoComp // companion j.MergeWith(sketch)
	opNumKinds
)

var opNames = []string{"Add", "AddWithCount", "MergeWith", "DecodeAndMergeWith", "Clear", "Reweight", "Encode->Decode", "Copy->continue", "ToProto->FromProto", "ChangeMapping",
	"Copy(kept alive)", "companion.AddWithCount", "companion.Reweight", "companion.Clear", "MergeWith(live companion)", "companion.MergeWith(sketch)"}

type argRecipe struct {
	Spec         gen.StoreSpec
	Items        []mon.Item
	ClearedFirst bool
}

type skOp struct {
	kind   int
	v, w   float64
	arg    *argRecipe
	omit   bool
	target gen.StoreSpec
	newMap *gen.Map // opChangeMapping
	j      int      // companion index
}

func (o skOp) String() string {
	switch o.kind {
	case opAdd:
		return fmt.Sprintf("Add(%v)", o.v)
	case opAddW:
		return fmt.Sprintf("AddWithCount(%v, %v)", o.v, o.w)
	case opMerge, opDecodeMerge:
		return fmt.Sprintf("%s(arg: %s store, %d items, clearedFirst=%v, omitMapping=%v)", opNames[o.kind], o.arg.Spec, len(o.arg.Items), o.arg.ClearedFirst, o.omit)
	case opReweight:
		return fmt.Sprintf("Reweight(%v)", o.w)
	case opChangeMapping:
		return fmt.Sprintf("ChangeMapping(%s, into %s, scale %v)", o.newMap.Desc, o.target, o.w)
	case opRoundTrip, opProtoRoundTrip:
		return fmt.Sprintf("%s(into %s, omitMapping=%v)", opNames[o.kind], o.target, o.omit)
	case opFork, opCompClear, opMergeFromComp, opMergeIntoComp:
		return fmt.Sprintf("%s [companion %d]", opNames[o.kind], o.j)
	case opCompAdd:
		return fmt.Sprintf("companion %d.AddWithCount(%v, %v)", o.j, o.v, o.w)
	case opCompReweight:
		return fmt.Sprintf("companion %d.Reweight(%v)", o.j, o.w)
	}
	return opNames[o.kind]
}

// histGen generates histories for one (mapping, store spec).
type histGen struct {
	c          *core.Ctx
	r          *rng.Rng
	m          *gen.Map
	spec       gen.StoreSpec
	exact      bool
	budget     *gen.Budget // shared by every history of a case whose objects meet (merge, copy, compare)
	pool       []float64   // values (magnitudes with sign) to draw from
	weights    [opNumKinds]int
	anySpec    bool      // round-trip / argument store kinds drawn from all 5 kinds (else non-collapsing only)
	sameTarget bool      // round trips always go back into the sketch's own store spec
	running    float64   // upper bound of the weight the main sketch holds
	comp       []float64 // upper bound of the weight each live companion holds
	identityCM bool      // mapping changes are identity conversions only (equal mapping, scale 1): an exact copy
}

// withCompanions makes the generator keep copies alive next to the sketch: they keep being used, are merged
// into the sketch and receive it as merge argument (nothing may be shared between any two of them).
func (h *histGen) withCompanions() {
	h.weights[opFork] = 4
	h.weights[opCompAdd] = 10
	h.weights[opCompReweight] = 1
	h.weights[opCompClear] = 1
	h.weights[opMergeFromComp] = 4
	h.weights[opMergeIntoComp] = 3
}

func newHistGen(c *core.Ctx, r *rng.Rng, m *gen.Map, spec gen.StoreSpec, pattern string, sigmaIdx float64) *histGen {
	h := &histGen{c: c, r: r, m: m, spec: spec, budget: &gen.Budget{}}
	vs := genValues(c, r, m, gen.StoreSpec{Kind: gen.SDense}, r.Range(4, 60), pattern, sigmaIdx)
	h.pool = vs.vals
	h.weights = [opNumKinds]int{30, 20, 8, 5, 3, 5, 4, 3, 2, 0, 0, 0, 0, 0, 0, 0}
	return h
}

func (h *histGen) value() float64 { return h.pool[h.r.Intn(len(h.pool))] }

func (h *histGen) otherSpec() gen.StoreSpec {
	if h.anySpec {
		return gen.RandAnyStore(h.r)
	}
	return gen.RandPlainStore(h.r)
}

func (h *histGen) recipe() *argRecipe {
	a := &argRecipe{Spec: h.otherSpec()}
	if h.r.P(0.4) {
		a.Spec = h.spec
	}
	n := []int{0, h.r.Range(1, 5), h.r.Range(5, 40), h.r.Range(64, 130)}[h.r.Pick(1, 4, 3, 1)]
	for i := 0; i < n; i++ {
		w := 1.0
		if h.r.P(0.4) {
			w = h.budget.Weight(h.r, 8, 2)
		} else {
			h.budget.Charge(2)
		}
		a.Items = append(a.Items, mon.Item{V: h.value(), W: w})
	}
	a.ClearedFirst = h.r.P(0.1)
	return a
}

func (a *argRecipe) total() float64 {
	t := 0.0
	for _, it := range a.Items {
		t += it.W
	}
	return t
}

// build constructs the argument sketch of a recipe.
func (a *argRecipe) build(exact bool, m *gen.Map) mon.Sketch {
	s := mon.NewSketch(exact, m.M, a.Spec)
	if a.ClearedFirst {
		for _, it := range a.Items {
			s.I().AddWithCount(it.V, it.W)
		}
		s.I().Clear()
	}
	for _, it := range a.Items {
		if it.W == 1 {
			s.I().Add(it.V)
		} else {
			s.I().AddWithCount(it.V, it.W)
		}
	}
	return s
}

func (h *histGen) gen(n int) []skOp {
	ops := make([]skOp, 0, n)
	for len(ops) < n {
		k := h.r.Pick(h.weights[:]...)
		op := skOp{kind: k}
		switch k {
		case opAdd:
			op.v, op.w = h.value(), 1
			h.budget.Charge(1)
			h.running++
		case opAddW:
			op.v = h.value()
			op.w = h.budget.Weight(h.r, 10, 1)
			if h.r.P(0.04) {
				op.w = 0
			}
			h.running += op.w
		case opMerge, opDecodeMerge:
			op.arg = h.recipe()
			op.omit = h.r.Bool()
			h.running += op.arg.total()
		case opClear:
			h.running = 0
		case opReweight:
			f := h.budget.Factor(h.r)
			if f == 0 {
				continue
			}
			op.w = f
			h.running *= f
		case opRoundTrip, opProtoRoundTrip:
			op.target = h.spec
			if h.r.P(0.4) && !h.sameTarget {
				op.target = h.otherSpec()
			}
			h.spec = op.target
			op.omit = h.r.Bool()
			if !h.budget.Charge(h.running) {
				continue
			}
		case opCopySwitch:
			if !h.budget.Charge(h.running) {
				continue
			}
		case opChangeMapping:
			nm := gen.RandMap(h.r, true)
			scale := []float64{1, 2, 0.5, 10, 1e-3, 1e3, 3, 1.0 / 3}[h.r.Intn(8)]
			if h.r.P(0.3) {
				scale = h.r.LogUniform(1e-3, 1e3)
			}
			if h.r.P(0.15) || h.identityCM {
				nm, scale = h.m, 1
				if h.r.Bool() {
					// an equal mapping, but another object
					if mm, err := gen.NewMapGamma(h.m.Kind, h.m.Gamma, h.m.Offset); err == nil && mm.M.Equals(h.m.M) {
						mm.Alpha = h.m.Alpha
						nm = mm
					}
				}
			}
			ok := true
			gOld := (1 + h.m.M.RelativeAccuracy()) / (1 - h.m.M.RelativeAccuracy())
			gNew := (1 + nm.M.RelativeAccuracy()) / (1 - nm.M.RelativeAccuracy())
			for _, v := range h.pool {
				// values must be well inside both mappings' ranges, before and after scaling
				a := math.Abs(v)
				if a <= h.m.Min {
					continue
				}
				if a < h.m.Min*gOld*gOld*4 || a > h.m.Max/(gOld*gOld*4) || a*scale < nm.Min*gNew*gNew*4 || a*scale > nm.Max/(gNew*gNew*4) {
					ok = false
				}
			}
			// a conversion from a very coarse to a very fine mapping spreads every source bin over millions of target
			// bins (legitimate, and hours of work for one call): histories keep the ratio of bin widths below 200
			if math.Log(gOld)/math.Log(gNew) > 200 {
				ok = false
			}
			if !ok || !h.budget.Charge(h.running) {
				continue
			}
			op.newMap, op.w = nm, scale
			op.target = h.otherSpec()
			if scale == 1 && h.m.M.Equals(nm.M) {
				op.target = h.spec // the identity conversion returns a copy, with the source's store kind
			}
			h.spec = op.target
			for i := range h.pool {
				h.pool[i] *= scale
			}
			if !(scale == 1 && gen.SameParams(nm, h.m)) {
				h.comp = nil // companions of another mapping cannot meet the sketch any more: skState retires them
			}
			h.m = nm
		case opFork:
			if len(h.comp) >= 3 || !h.budget.Charge(h.running) {
				continue
			}
			op.j = len(h.comp)
			h.comp = append(h.comp, h.running)
		case opCompAdd:
			if len(h.comp) == 0 {
				continue
			}
			op.j = h.r.Intn(len(h.comp))
			op.v, op.w = h.value(), 1
			if h.r.P(0.4) {
				op.w = h.budget.Weight(h.r, 10, 1)
			} else {
				h.budget.Charge(1)
			}
			h.comp[op.j] += op.w
		case opCompReweight:
			if len(h.comp) == 0 {
				continue
			}
			f := h.budget.Factor(h.r)
			if f == 0 {
				continue
			}
			op.j = h.r.Intn(len(h.comp))
			op.w = f
			h.comp[op.j] *= f
		case opCompClear:
			if len(h.comp) == 0 {
				continue
			}
			op.j = h.r.Intn(len(h.comp))
			h.comp[op.j] = 0
		case opMergeFromComp:
			if len(h.comp) == 0 {
				continue
			}
			op.j = h.r.Intn(len(h.comp))
			if !h.budget.Charge(h.comp[op.j]) {
				continue
			}
			if h.r.P(0.25) {
				// into an empty receiver
				ops = append(ops, skOp{kind: opClear})
				h.running = 0
			}
			h.running += h.comp[op.j]
		case opMergeIntoComp:
			if len(h.comp) == 0 {
				continue
			}
			op.j = h.r.Intn(len(h.comp))
			if !h.budget.Charge(h.running) {
				continue
			}
			if h.r.P(0.25) {
				ops = append(ops, skOp{kind: opCompClear, j: op.j})
				h.comp[op.j] = 0
			}
			h.comp[op.j] += h.running
		}
		ops = append(ops, op)
	}
	return ops
}

// applyOp executes op on the real sketch *s (which may be replaced). It returns
// the error of the library call, if any.
func applyOp(c *core.Ctx, name string, s *mon.Sketch, spec *gen.StoreSpec, mp **gen.Map, op skOp) (err error) {
	c.Logf("%s.%s", name, op)
	c.Count("event."+opNames[op.kind], 1)
	c.Guard(opNames[op.kind], func() { err = rawApply(s, spec, mp, op) })
	return err
}

// rawApply executes op without touching any monitor state (also used from the
// unsynchronised goroutines of the race pass).
func rawApply(s *mon.Sketch, spec *gen.StoreSpec, mp **gen.Map, op skOp) (err error) {
	m := *mp
	switch op.kind {
	case opAdd:
		err = s.I().Add(op.v)
	case opAddW:
		err = s.I().AddWithCount(op.v, op.w)
	case opMerge:
		err = s.MergeWith(op.arg.build(s.Exact, m))
	case opDecodeMerge:
		a := op.arg.build(s.Exact, m)
		var b []byte
		a.I().Encode(&b, op.omit)
		err = s.I().DecodeAndMergeWith(b)
	case opClear:
		s.I().Clear()
	case opReweight:
		err = s.I().Reweight(op.w)
	case opRoundTrip:
		var b []byte
		s.I().Encode(&b, op.omit)
		supplied := m.M
		if !op.omit {
			supplied = nil
		}
		d, e := mon.Decode(s.Exact, b, op.target, supplied)
		if e != nil {
			return e
		}
		*s = d
		*spec = op.target
	case opProtoRoundTrip:
		if s.Exact {
			// the protobuf form carries no exact statistics: the sketch goes through it, the statistics through
			// their getters, and both are put together again by the public constructors made for that
			mn, e1 := s.E.GetMinValue()
			mx, e2 := s.E.GetMaxValue()
			if s.E.GetCount() == 0 || e1 != nil || e2 != nil {
				// nothing the getters can describe (an empty sketch; or statistics without bins, which only an
				// interrupted decode leaves behind): the binary round trip into the same target instead
				var b []byte
				s.I().Encode(&b, false)
				d, e := mon.Decode(true, b, op.target, nil)
				if e != nil {
					return e
				}
				*s = d
				*spec = op.target
				return nil
			}
			st, e := stat.NewSummaryStatisticsFromData(s.E.GetCount(), s.E.GetSum(), mn, mx)
			if e != nil {
				return e
			}
			d, e := fromProto(s.E.DDSketch.ToProto(), op.target)
			if e != nil {
				return e
			}
			ne, e := ddsketch.NewDDSketchWithExactSummaryStatisticsFromData(d, st)
			if e != nil {
				return e
			}
			*s = mon.Sketch{Exact: true, E: ne, P: ne.DDSketch}
			*spec = op.target
			return nil
		}
		pb := s.P.ToProto()
		d, e := fromProto(pb, op.target)
		if e != nil {
			return e
		}
		*s = mon.Sketch{P: d}
		*spec = op.target
	case opCopySwitch:
		old := *s
		*s = s.Copy()
		// poison the original
		old.I().Add(m.ClampIn(1))
		old.I().Clear()
	case opChangeMapping:
		old := *s
		*s = s.ChangeMapping(op.newMap.M, op.target, op.w)
		*spec = op.target
		*mp = op.newMap
		// the source stays alive and keeps being used: nothing of it may be shared with the result
		old.I().Add(m.ClampIn(1))
		old.I().Reweight(2)
		old.I().Clear()
	}
	return err
}

// applyModel mirrors a (successful) op on the model.
func applyModel(mdl **mon.SketchModel, m *gen.Map, op skOp) {
	md := *mdl
	switch op.kind {
	case opAdd, opAddW:
		md.Add(op.v, op.w)
	case opMerge, opDecodeMerge:
		am := mon.NewSketchModel(m, op.arg.Spec)
		for _, it := range op.arg.Items {
			am.Add(it.V, it.W)
		}
		md.Merge(am)
		md.Lossy++
	case opClear:
		md.Clear()
	case opReweight:
		md.Scale(op.w)
		if f, _ := math.Frexp(op.w); f != 0.5 {
			md.Lossy++
		}
	case opRoundTrip, opProtoRoundTrip:
		nm := mon.NewSketchModel(m, op.target)
		nm.Merge(md)
		nm.Lossy = md.Lossy + 1
		*mdl = nm
	case opCopySwitch:
		*mdl = md.Clone()
	case opChangeMapping:
		nm := mon.NewSketchModel(op.newMap, op.target)
		for _, it := range md.Items {
			nm.Items = append(nm.Items, mon.Item{V: it.V * op.w, W: it.W})
		}
		nm.Zero = md.Zero
		if op.w == 1 && m.M.Equals(op.newMap.M) {
			// identity: an exact copy
			cl := md.Clone()
			cl.Map = op.newMap
			*mdl = cl
			return
		}
		nm.BinsUnknown = true
		nm.Lossy = md.Lossy + 1
		nm.PeakAbs = md.PeakAbs * math.Max(1, op.w)
		nm.AbsNow = md.AbsNow * op.w
		*mdl = nm
	}
}

// skState is a sketch under model monitoring.
type skState struct {
	c     *core.Ctx
	name  string
	s     mon.Sketch
	spec  gen.StoreSpec
	m     *gen.Map
	mdl   *mon.SketchModel
	comps []*skState // live companions (copies that stay in use)
}

// live returns the sketch and its live companions: every check that holds for the sketch holds for each of them.
func (st *skState) live() []*skState {
	return append([]*skState{st}, st.comps...)
}

func newSkState(c *core.Ctx, name string, exact bool, m *gen.Map, spec gen.StoreSpec) *skState {
	return &skState{c: c, name: name, s: mon.NewSketch(exact, m.M, spec), spec: spec, m: m, mdl: mon.NewSketchModel(m, spec)}
}

// apply executes a valid op on the real sketch and on the model; false if the library refused or panicked.
func (st *skState) apply(op skOp) bool {
	if op.kind >= opFork {
		return st.applyCompanionOp(op)
	}
	if op.kind == opChangeMapping && !(op.w == 1 && gen.SameParams(op.newMap, st.m)) {
		st.comps = nil
	}
	mBefore := st.m
	err := applyOp(st.c, st.name, &st.s, &st.spec, &st.m, op)
	if st.c.Failed() {
		return false
	}
	if err != nil {
		st.c.Failf("op.error:"+opNames[op.kind], "valid operation %s returned %v", op, err)
		return false
	}
	applyModel(&st.mdl, mBefore, op)
	return true
}

func (st *skState) applyCompanionOp(op skOp) bool {
	c := st.c
	c.Logf("%s.%s", st.name, op)
	c.Count("event."+opNames[op.kind], 1)
	if op.kind != opFork && op.j >= len(st.comps) {
		c.Failf("harness.companion", "internal: companion %d does not exist", op.j)
		return false
	}
	var err error
	switch op.kind {
	case opFork:
		var cp mon.Sketch
		if c.Guard("Copy", func() { cp = st.s.Copy() }) {
			return false
		}
		st.comps = append(st.comps, &skState{c: c, name: fmt.Sprintf("%s.companion%d", st.name, len(st.comps)), s: cp, spec: st.spec, m: st.m, mdl: st.mdl.Clone()})
	case opCompAdd:
		k := st.comps[op.j]
		c.Guard("AddWithCount", func() {
			if op.w == 1 {
				err = k.s.I().Add(op.v)
			} else {
				err = k.s.I().AddWithCount(op.v, op.w)
			}
		})
		k.mdl.Add(op.v, op.w)
	case opCompReweight:
		k := st.comps[op.j]
		c.Guard("Reweight", func() { err = k.s.I().Reweight(op.w) })
		k.mdl.Scale(op.w)
		if f, _ := math.Frexp(op.w); f != 0.5 {
			k.mdl.Lossy++
		}
	case opCompClear:
		k := st.comps[op.j]
		c.Guard("Clear", func() { k.s.I().Clear() })
		k.mdl.Clear()
	case opMergeFromComp:
		k := st.comps[op.j]
		c.Guard("MergeWith", func() { err = st.s.MergeWith(k.s) })
		st.mdl.Merge(k.mdl.Clone())
		st.mdl.Lossy++
	case opMergeIntoComp:
		k := st.comps[op.j]
		c.Guard("MergeWith", func() { err = k.s.MergeWith(st.s) })
		k.mdl.Merge(st.mdl.Clone())
		k.mdl.Lossy++
	}
	if c.Failed() {
		return false
	}
	if err != nil {
		c.Failf("op.error:"+opNames[op.kind], "valid operation %s returned %v", op, err)
		return false
	}
	return true
}

func fromProto(pb *sketchpb.DDSketch, target gen.StoreSpec) (*ddsketch.DDSketch, error) {
	raw, err := proto.Marshal(pb)
	if err != nil {
		return nil, err
	}
	var back sketchpb.DDSketch
	if err := proto.Unmarshal(raw, &back); err != nil {
		return nil, err
	}
	return ddsketch.FromProtoWithStoreProvider(&back, target.Provider())
}
