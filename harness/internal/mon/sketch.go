package mon

import (
	"fmt"
	"math"
	"sort"

	"github.com/DataDog/sketches-go/ddsketch"
	"github.com/DataDog/sketches-go/ddsketch/mapping"
	"github.com/DataDog/sketches-go/ddsketch/store"

	"verif/harness/internal/core"
	"verif/harness/internal/gen"
	"verif/harness/internal/model"
)

// Sk is the operation surface shared by both sketch variants.
type Sk interface {
	RelativeAccuracy() float64
	IsEmpty() bool
	GetCount() float64
	GetZeroCount() float64
	GetSum() float64
	GetPositiveValueStore() store.Store
	GetNegativeValueStore() store.Store
	GetMinValue() (float64, error)
	GetMaxValue() (float64, error)
	GetValueAtQuantile(q float64) (float64, error)
	GetValuesAtQuantiles(qs []float64) ([]float64, error)
	ForEach(f func(value, count float64) (stop bool))
	Add(v float64) error
	AddWithCount(v, c float64) error
	Reweight(f float64) error
	Clear()
	Encode(b *[]byte, omitIndexMapping bool)
	DecodeAndMergeWith(b []byte) error
}

// Sketch is either variant of the library sketch.
type Sketch struct {
	Exact bool
	P     *ddsketch.DDSketch
	E     *ddsketch.DDSketchWithExactSummaryStatistics
}

func NewSketch(exact bool, m mapping.IndexMapping, sp gen.StoreSpec) Sketch {
	if exact {
		e := ddsketch.NewDDSketchWithExactSummaryStatistics(m, sp.Provider())
		return Sketch{Exact: true, E: e, P: e.DDSketch}
	}
	if sp.Kind%2 == 0 {
		// both public constructors are in use
		return Sketch{P: ddsketch.NewDDSketchFromStoreProvider(m, sp.Provider())}
	}
	return Sketch{P: ddsketch.NewDDSketch(m, sp.New(), sp.New())}
}

func (s Sketch) I() Sk {
	if s.Exact {
		return s.E
	}
	return s.P
}

func (s Sketch) Mapping() mapping.IndexMapping { return s.P.IndexMapping }

func (s Sketch) MergeWith(o Sketch) error {
	if s.Exact && o.Exact {
		return s.E.MergeWith(o.E)
	}
	if !s.Exact {
		return s.P.MergeWith(o.P)
	}
	panic("harness: merging a plain sketch into an exact one is not part of the API")
}

func (s Sketch) Copy() Sketch {
	if s.Exact {
		e := s.E.Copy()
		return Sketch{Exact: true, E: e, P: e.DDSketch}
	}
	return Sketch{P: s.P.Copy()}
}

func (s Sketch) ChangeMapping(m mapping.IndexMapping, sp gen.StoreSpec, scale float64) Sketch {
	if s.Exact {
		e := s.E.ChangeMapping(m, sp.Provider(), scale)
		return Sketch{Exact: true, E: e, P: e.DDSketch}
	}
	return Sketch{P: s.P.ChangeMapping(m, sp.New(), sp.New(), scale)}
}

func Decode(exact bool, b []byte, sp gen.StoreSpec, m mapping.IndexMapping) (Sketch, error) {
	if exact {
		e, err := ddsketch.DecodeDDSketchWithExactSummaryStatistics(b, sp.Provider(), m)
		if e == nil {
			return Sketch{Exact: true}, err
		}
		return Sketch{Exact: true, E: e, P: e.DDSketch}, err
	}
	p, err := ddsketch.DecodeDDSketch(b, sp.Provider(), m)
	return Sketch{P: p}, err
}

// DecodeWith is Decode with a caller-chosen store provider.
func DecodeWith(exact bool, b []byte, provider store.Provider, m mapping.IndexMapping) (Sketch, error) {
	if exact {
		e, err := ddsketch.DecodeDDSketchWithExactSummaryStatistics(b, provider, m)
		if e == nil {
			return Sketch{Exact: true}, err
		}
		return Sketch{Exact: true, E: e, P: e.DDSketch}, err
	}
	p, err := ddsketch.DecodeDDSketch(b, provider, m)
	return Sketch{P: p}, err
}

// Recycler is a store provider that hands out the stores it made before again (after they were cleared), as the
// documentation of DecodeDDSketch suggests for callers that decode often.
type Recycler struct {
	Spec gen.StoreSpec
	made []store.Store
	next int
}

func (rc *Recycler) Provider() store.Provider {
	return func() store.Store {
		if rc.next < len(rc.made) {
			s := rc.made[rc.next]
			rc.next++
			return s
		}
		s := rc.Spec.New()
		rc.made = append(rc.made, s)
		rc.next++
		return s
	}
}

// Recycle clears every store handed out so far and starts handing them out again.
func (rc *Recycler) Recycle() {
	for _, s := range rc.made {
		s.Clear()
	}
	rc.next = 0
}

// ---------- observation snapshot ----------

var ObsGrid = []float64{0, 0.001, 0.01, 0.05, 0.1, 0.25, 0.3333333333333333, 0.5, 0.6666666666666666, 0.75, 0.9, 0.95, 0.99, 0.999, 1}

// Obs is everything a user can observe about a sketch (DESIGN.md §3.5).
type Obs struct {
	Count, Zero    float64
	Empty          bool
	Min, Max       float64
	MinErr, MaxErr bool
	Pos, Neg       []KV
	Qs             []float64 // the grid that was queried
	Quant          []float64 // single answers (NaN when error)
	QuantErr       []bool
	Batch          []float64
	BatchErr       bool
	HasSum         bool
	Sum            float64
}

func feq(a, b float64) bool { return a == b || (math.IsNaN(a) && math.IsNaN(b)) }

// obsOrder drives the order in which Observe asks its queries: the first query a sketch answers after a
// mutation finds the stores as the mutation left them (unsorted buffers, pending compaction), so which query
// comes first is part of the workload. It is set at the start of every case from the case's seed (single goroutine).
var obsOrder uint64

// SetObserveOrder seeds the query order of the following Observe calls.
func SetObserveOrder(seed uint64) { obsOrder = seed }

func nextOrder() uint64 {
	obsOrder += 0x9e3779b97f4a7c15
	z := obsOrder
	z = (z ^ (z >> 30)) * 0xbf58476d1ce4e5b9
	z = (z ^ (z >> 27)) * 0x94d049bb133111eb
	return z ^ (z >> 31)
}

// Observe takes a snapshot. extraQ are case-specific quantiles added to the grid.
// The snapshot's content does not depend on the order of the queries (C14); the order varies from call to call.
func Observe(s Sketch, extraQ []float64) *Obs {
	k := s.I()
	o := &Obs{}
	o.Qs = append(append([]float64{}, ObsGrid...), extraQ...)
	o.Quant = make([]float64, len(o.Qs))
	o.QuantErr = make([]bool, len(o.Qs))
	z := nextOrder()
	groups := []func(){
		func() {
			var err error
			if z&(1<<40) == 0 {
				o.Count = k.GetCount()
				o.Zero = k.GetZeroCount()
				o.Empty = k.IsEmpty()
			}
			if z&(1<<41) == 0 {
				o.Min, err = k.GetMinValue()
				o.MinErr = err != nil
				o.Max, err = k.GetMaxValue()
				o.MaxErr = err != nil
			} else {
				o.Max, err = k.GetMaxValue()
				o.MaxErr = err != nil
				o.Min, err = k.GetMinValue()
				o.MinErr = err != nil
			}
			if z&(1<<40) != 0 {
				o.Empty = k.IsEmpty()
				o.Zero = k.GetZeroCount()
				o.Count = k.GetCount()
			}
		},
		func() { o.Pos, _, _ = ForEachBins(k.GetPositiveValueStore()) },
		func() { o.Neg, _, _ = ForEachBins(k.GetNegativeValueStore()) },
		func() {
			for j := range o.Qs {
				i := j
				if z&(1<<42) != 0 {
					i = len(o.Qs) - 1 - j
				}
				v, err := k.GetValueAtQuantile(o.Qs[i])
				o.Quant[i], o.QuantErr[i] = v, err != nil
				if err != nil {
					o.Quant[i] = math.NaN()
				}
			}
		},
		func() {
			var err error
			o.Batch, err = k.GetValuesAtQuantiles(o.Qs)
			o.BatchErr = err != nil
		},
		func() {
			if s.Exact {
				o.HasSum = true
				o.Sum = k.GetSum()
			}
		},
	}
	// Fisher-Yates on the groups
	for i := len(groups) - 1; i > 0; i-- {
		j := int((z >> uint(6*i)) % uint64(i+1))
		groups[i], groups[j] = groups[j], groups[i]
	}
	for _, g := range groups {
		g()
	}
	return o
}

// Diff returns "" when both snapshots are identical, else a description of the first difference.
func (a *Obs) Diff(b *Obs) string {
	if !feq(a.Count, b.Count) {
		return fmt.Sprintf("count %v vs %v", a.Count, b.Count)
	}
	if !feq(a.Zero, b.Zero) {
		return fmt.Sprintf("zero count %v vs %v", a.Zero, b.Zero)
	}
	if a.Empty != b.Empty {
		return fmt.Sprintf("IsEmpty %v vs %v", a.Empty, b.Empty)
	}
	if a.MinErr != b.MinErr || (!a.MinErr && !feq(a.Min, b.Min)) {
		return fmt.Sprintf("min %v(err=%v) vs %v(err=%v)", a.Min, a.MinErr, b.Min, b.MinErr)
	}
	if a.MaxErr != b.MaxErr || (!a.MaxErr && !feq(a.Max, b.Max)) {
		return fmt.Sprintf("max %v(err=%v) vs %v(err=%v)", a.Max, a.MaxErr, b.Max, b.MaxErr)
	}
	if !equalBins(a.Pos, b.Pos) {
		return fmt.Sprintf("positive bins %s vs %s", fmtBins(a.Pos), fmtBins(b.Pos))
	}
	if !equalBins(a.Neg, b.Neg) {
		return fmt.Sprintf("negative bins %s vs %s", fmtBins(a.Neg), fmtBins(b.Neg))
	}
	if len(a.Qs) == len(b.Qs) {
		for i := range a.Qs {
			if a.QuantErr[i] != b.QuantErr[i] || !feq(a.Quant[i], b.Quant[i]) {
				return fmt.Sprintf("quantile(%v) %v(err=%v) vs %v(err=%v)", a.Qs[i], a.Quant[i], a.QuantErr[i], b.Quant[i], b.QuantErr[i])
			}
		}
		if a.BatchErr != b.BatchErr || len(a.Batch) != len(b.Batch) {
			return fmt.Sprintf("batch quantiles err=%v len=%d vs err=%v len=%d", a.BatchErr, len(a.Batch), b.BatchErr, len(b.Batch))
		}
		for i := range a.Batch {
			if !feq(a.Batch[i], b.Batch[i]) {
				return fmt.Sprintf("batch quantile(%v) %v vs %v", a.Qs[i], a.Batch[i], b.Batch[i])
			}
		}
	}
	if a.HasSum && b.HasSum && !feq(a.Sum, b.Sum) {
		return fmt.Sprintf("exact sum %v vs %v", a.Sum, b.Sum)
	}
	return ""
}

// SelfCheck verifies that batch answers equal single answers within one snapshot.
func (a *Obs) BatchDiff() string {
	anyErr := false
	for _, e := range a.QuantErr {
		anyErr = anyErr || e
	}
	if anyErr != a.BatchErr {
		return fmt.Sprintf("batch error=%v but single-query errors=%v", a.BatchErr, anyErr)
	}
	if a.BatchErr {
		return ""
	}
	if len(a.Batch) != len(a.Quant) {
		return fmt.Sprintf("batch returned %d answers for %d quantiles", len(a.Batch), len(a.Quant))
	}
	for i := range a.Quant {
		if !feq(a.Quant[i], a.Batch[i]) {
			return fmt.Sprintf("batch quantile(%v)=%v but single query=%v", a.Qs[i], a.Batch[i], a.Quant[i])
		}
	}
	return ""
}

// ---------- sketch model ----------

// Item is one absorbed (value, weight).
type Item struct {
	V, W float64
}

// SketchModel is the bin-level content a sketch must hold: two index->weight
// maps (folded when the stores are bounded), the zero weight, plus the list of
// absorbed items for value-level oracles.
type SketchModel struct {
	Map   *gen.Map
	Pos   *model.Bins
	Neg   *model.Bins
	Zero  float64
	Items []Item
	// statistics of the exact model
	Lossy int // events after which the exact sum is only known up to rounding
	// BinsUnknown is set after a mapping change, whose split of weights over bins the model does not prescribe.
	BinsUnknown bool
	// everFolded is sticky: some weight held by this sketch went through a bounded store's fold since the last Clear.
	everFolded bool
	// PeakAbs is the largest sum of |value*weight| seen since the last Clear (a running sum that overflowed once stays infinite).
	PeakAbs float64
	// AbsNow is the current sum of |value*weight|, maintained incrementally (float, an estimate).
	AbsNow float64
}

func (m *SketchModel) notePeak() {
	if m.AbsNow > m.PeakAbs {
		m.PeakAbs = m.AbsNow
	}
}

// EverFolded tells whether any weight held was moved by a collapsing store since the last Clear.
func (m *SketchModel) EverFolded() bool {
	return m.everFolded || m.Pos.Folded || m.Neg.Folded
}

func NewSketchModel(m *gen.Map, sp gen.StoreSpec) *SketchModel {
	mode, n := foldModeOf(sp)
	mk := func() *model.Bins {
		if mode == model.NoFold {
			return model.NewBins()
		}
		return model.NewFold(mode, n)
	}
	return &SketchModel{Map: m, Pos: mk(), Neg: mk()}
}

func (m *SketchModel) Clone() *SketchModel {
	c := &SketchModel{Map: m.Map, Pos: m.Pos.Clone(), Neg: m.Neg.Clone(), Zero: m.Zero, Lossy: m.Lossy, BinsUnknown: m.BinsUnknown, everFolded: m.everFolded, PeakAbs: m.PeakAbs, AbsNow: m.AbsNow}
	c.Items = append([]Item{}, m.Items...)
	return c
}

// Add applies a valid (trackable value, non-negative weight) addition, routing as
// the documentation says: magnitudes not above MinIndexableValue go to the zero bucket.
func (m *SketchModel) Add(v, w float64) {
	if w == 0 {
		return
	}
	switch {
	case v > m.Map.Min:
		m.Pos.Add(m.Map.M.Index(v), w)
	case v < -m.Map.Min:
		m.Neg.Add(m.Map.M.Index(-v), w)
	default:
		m.Zero += w
	}
	m.Items = append(m.Items, Item{v, w})
	m.AbsNow += math.Abs(v * w)
	m.notePeak()
}

func (m *SketchModel) Merge(o *SketchModel) {
	m.Pos.Merge(o.Pos)
	m.Neg.Merge(o.Neg)
	m.Zero += o.Zero
	m.Items = append(m.Items, o.Items...)
	m.Lossy += o.Lossy
	m.BinsUnknown = m.BinsUnknown || o.BinsUnknown
	m.everFolded = m.everFolded || o.EverFolded()
	if o.PeakAbs > m.PeakAbs {
		m.PeakAbs = o.PeakAbs
	}
	m.AbsNow += o.AbsNow
	m.notePeak()
}

func (m *SketchModel) Scale(f float64) {
	m.Pos.Scale(f)
	m.Neg.Scale(f)
	m.Zero *= f
	for i := range m.Items {
		m.Items[i].W *= f
	}
	m.AbsNow *= f
	m.notePeak()
}

func (m *SketchModel) Clear() {
	m.Pos.Clear()
	m.Neg.Clear()
	m.Zero = 0
	m.Items = nil
	m.Lossy = 0
	m.BinsUnknown = false
	m.everFolded = false
	m.PeakAbs = 0
	m.AbsNow = 0
}

func (m *SketchModel) Total() float64 { return m.Zero + m.Pos.Total() + m.Neg.Total() }

// SortedItems returns the absorbed items with positive weight ordered by value
// (magnitudes below MinIndexableValue normalised to 0).
func (m *SketchModel) SortedItems() []Item {
	out := make([]Item, 0, len(m.Items))
	for _, it := range m.Items {
		if it.W <= 0 {
			continue
		}
		v := it.V
		if math.Abs(v) < m.Map.Min {
			v = 0
		}
		out = append(out, Item{v, it.W})
	}
	sort.SliceStable(out, func(i, j int) bool { return out[i].V < out[j].V })
	return out
}

// CheckSketchBins compares the bin-level content of the sketch with the model (exact).
func CheckSketchBins(c *core.Ctx, tag string, s Sketch, m *SketchModel) {
	checkSketchBins(c, tag, s, m, true)
}

// CheckSketchBinsOnly is CheckSketchBins without the GetCount comparison (the exact
// variant's count comes from its statistics, which a partial stream may not match).
func CheckSketchBinsOnly(c *core.Ctx, tag string, s Sketch, m *SketchModel) {
	checkSketchBins(c, tag, s, m, false)
}

func checkSketchBins(c *core.Ctx, tag string, s Sketch, m *SketchModel, withCount bool) {
	k := s.I()
	c.Count("oracle.sketch_bin_checks", 1)
	pos, dup1, np1 := ForEachBins(k.GetPositiveValueStore())
	neg, dup2, np2 := ForEachBins(k.GetNegativeValueStore())
	if dup1 || dup2 || np1 || np2 {
		c.Failf("sketch.bins.malformed:"+tag, "store iteration reported duplicate or non-positive bins: pos %s neg %s", fmtBins(pos), fmtBins(neg))
	}
	if w := modelBins(m.Pos); !equalBins(pos, w) {
		c.Failf("sketch.bins.positive:"+tag, "positive bins %s != model %s", fmtBins(pos), fmtBins(w))
	}
	if w := modelBins(m.Neg); !equalBins(neg, w) {
		c.Failf("sketch.bins.negative:"+tag, "negative bins %s != model %s", fmtBins(neg), fmtBins(w))
	}
	if z := k.GetZeroCount(); z != m.Zero {
		c.Failf("sketch.zero:"+tag, "zero count %v != model %v", z, m.Zero)
	}
	if got, want := k.GetCount(), m.Total(); withCount && got != want {
		c.Failf("sketch.count:"+tag, "GetCount()=%v != model total %v", got, want)
	}
}
