package props

import (
	"bytes"
	"encoding/json"
	"fmt"
	"os"
	"os/exec"
	"path/filepath"
	"regexp"
	"sort"
	"strconv"
	"strings"
	"sync"
	"time"

	"github.com/DataDog/sketches-go/ddsketch"
	enc "github.com/DataDog/sketches-go/ddsketch/encoding"
	"github.com/DataDog/sketches-go/ddsketch/pb/sketchpb"
	"github.com/DataDog/sketches-go/ddsketch/store"

	"verif/harness/internal/core"
	"verif/harness/internal/gen"
	"verif/harness/internal/mon"
	"verif/harness/internal/rng"
)

// The race-detector aliasing pass of C14. Two independent objects (an object and
// its Copy) are hammered by two goroutines with no synchronisation between them:
// any word that both can reach and one of them writes is reported by the race
// detector even before the sharing becomes observable through the API.

type raceStep struct {
	op   *skOp // mutation, or nil for a read
	read int
	q    float64
}

func genRaceSteps(c *core.Ctx, r *rng.Rng, m *gen.Map, spec gen.StoreSpec, exact bool, pool []float64, n int, budget *gen.Budget) []raceStep {
	h := &histGen{c: c, r: r, m: m, spec: spec, exact: exact, pool: pool, anySpec: true, sameTarget: true, budget: budget}
	h.weights = [opNumKinds]int{40, 20, 6, 4, 2, 4, 3, 0, 2, 0}
	var steps []raceStep
	for _, op := range h.gen(n) {
		op := op
		steps = append(steps, raceStep{op: &op})
		for j := r.Intn(3); j > 0; j-- {
			steps = append(steps, raceStep{read: r.Intn(12), q: r.Float()})
		}
	}
	return steps
}

func raceRead(s mon.Sketch, code int, q float64) {
	k := s.I()
	switch code {
	case 0:
		k.GetValueAtQuantile(q)
	case 1:
		k.GetValuesAtQuantiles([]float64{q, 0, 1})
	case 2:
		k.GetCount()
		k.IsEmpty()
		k.GetMinValue()
		k.GetMaxValue()
	case 3:
		k.GetSum()
	case 4:
		n := 3
		k.ForEach(func(v, w float64) bool { n--; return n < 0 })
	case 5:
		for range k.GetPositiveValueStore().Bins() {
		}
		for range k.GetNegativeValueStore().Bins() {
		}
	case 6:
		k.GetPositiveValueStore().KeyAtRank(q * 10)
		k.GetNegativeValueStore().MinIndex()
	case 7:
		s.P.ToProto()
	case 8:
		var buf bytes.Buffer
		s.P.EncodeProto(&buf)
	case 9:
		var b []byte
		k.Encode(&b, false)
	case 10:
		cp := s.Copy()
		cp.I().Clear()
	default:
		var b []byte
		k.GetPositiveValueStore().Encode(&b, enc.FlagTypePositiveStore)
	}
}

func runSteps(s *mon.Sketch, spec gen.StoreSpec, m *gen.Map, steps []raceStep) {
	for _, st := range steps {
		if st.op != nil {
			rawApply(s, &spec, &m, *st.op)
		} else {
			raceRead(*s, st.read, st.q)
		}
	}
}

// raceRelation names how the second object of the last pair was obtained from the first (for the evidence).
var raceRelation = "copy"

// RacePair runs pair i. It returns a description of a final-state mismatch, or "".
func RacePair(seed uint64, i int) (mismatch string, steps int) {
	r := rng.New(rng.Hash(seed, rng.HashString("C14race"), uint64(i)))
	c := core.NewDetachedCtx(r) // only used by generators for counters; never touched from the goroutines
	if i%4 == 3 {
		return raceStorePair(c, r)
	}
	m := gen.RandMap(r, true)
	spec := gen.StoreSpec{Kind: i % 5}
	if spec.Collapsing() {
		spec.N = gen.RandN(r)
	}
	exact := r.P(0.4)
	vs := genValues(c, r, m, gen.StoreSpec{Kind: gen.SDense}, r.Range(4, 40), []string{"mixed", "mixed+zeros", "pos"}[r.Intn(3)], randSigmaIdx(r, 100))
	budget := &gen.Budget{}
	h0 := genRaceSteps(c, r, m, spec, exact, vs.vals, r.Range(1, 40), budget)
	sa := genRaceSteps(c, r.Fork(), m, spec, exact, vs.vals, r.Range(5, 40), budget)
	sb := genRaceSteps(c, r.Fork(), m, spec, exact, vs.vals, r.Range(5, 40), budget)

	// how the second object is obtained from the first: a copy, or any other operation after which the two are
	// independent objects (receiver and argument of a merge, source and result of an identity conversion, a sketch
	// and the one decoded from its encoding, a sketch and the one rebuilt from its protobuf message - the message
	// handed over as it is, not through Marshal)
	rel := r.Pick(4, 2, 2, 1, 2)
	if exact && rel == 4 {
		rel = 0
	}
	raceRelation = []string{"copy", "merge_receiver_and_argument", "identity_conversion", "decoded_from_encoding", "rebuilt_from_message"}[rel]
	var eqMap *gen.Map
	if mm, err := gen.NewMapGamma(m.Kind, m.Gamma, m.Offset); err == nil && mm.M.Equals(m.M) && r.Bool() {
		eqMap = mm
	}
	var keptMsg *sketchpb.DDSketch // rel 4: the message stays in use next to the sketch it came from
	derive := func(src mon.Sketch) mon.Sketch {
		switch rel {
		case 1:
			b := mon.NewSketch(exact, m.M, spec)
			if b.MergeWith(src) == nil {
				return b
			}
		case 2:
			mp := m
			if eqMap != nil {
				mp = eqMap
			}
			return src.ChangeMapping(mp.M, spec, 1)
		case 3:
			var buf []byte
			src.I().Encode(&buf, false)
			if d, err := mon.Decode(exact, buf, spec, nil); err == nil {
				return d
			}
		case 4:
			pb := src.P.ToProto()
			if d, err := ddsketch.FromProtoWithStoreProvider(pb, spec.Provider()); err == nil {
				keptMsg = pb
				return mon.Sketch{P: d}
			}
		}
		return src.Copy()
	}
	S := mon.NewSketch(exact, m.M, spec)
	runSteps(&S, spec, m, h0)
	cp := derive(S)

	var wg sync.WaitGroup
	start := make(chan struct{})
	wg.Add(2)
	go func() { defer wg.Done(); <-start; runSteps(&S, spec, m, sa) }()
	msg := keptMsg
	go func() {
		defer wg.Done()
		<-start
		if msg == nil {
			runSteps(&cp, spec, m, sb)
			return
		}
		// the message is read again (rebuilt into a throw-away sparse sketch) between the steps of the second object,
		// while the sketch it came from is being written to by the other goroutine
		for i := 0; i < len(sb); i += 4 {
			j := i + 4
			if j > len(sb) {
				j = len(sb)
			}
			runSteps(&cp, spec, m, sb[i:j])
			ddsketch.FromProtoWithStoreProvider(msg, store.SparseStoreConstructor)
		}
	}()
	close(start)
	wg.Wait()

	// sequential twins
	TA := mon.NewSketch(exact, m.M, spec)
	runSteps(&TA, spec, m, h0)
	runSteps(&TA, spec, m, sa)
	T0 := mon.NewSketch(exact, m.M, spec)
	runSteps(&T0, spec, m, h0)
	TB := derive(T0)
	runSteps(&TB, spec, m, sb)
	if d := mon.Observe(TA, nil).Diff(mon.Observe(S, nil)); d != "" {
		return "original differs from its sequential twin: " + d, len(h0) + len(sa) + len(sb)
	}
	if d := mon.Observe(TB, nil).Diff(mon.Observe(cp, nil)); d != "" {
		return "the second object (" + raceRelation + ") differs from its sequential twin: " + d, len(h0) + len(sa) + len(sb)
	}
	return "", len(h0) + len(sa) + len(sb)
}

func raceStorePair(c *core.Ctx, r *rng.Rng) (string, int) {
	spec := gen.RandAnyStore(r)
	type sop struct {
		kind  int
		index int
		w     float64
	}
	centre := r.Range(-5000, 5000)
	genOps := func(r *rng.Rng, n int) []sop {
		var ops []sop
		for i := 0; i < n; i++ {
			ops = append(ops, sop{kind: r.Pick(8, 4, 1, 1, 6), index: centre + r.Range(-150, 150), w: float64(r.Range(1, 9)) / 4})
		}
		return ops
	}
	run := func(st store.Store, ops []sop) {
		for _, o := range ops {
			switch o.kind {
			case 0:
				st.Add(o.index)
			case 1:
				st.AddWithCount(o.index, o.w)
			case 2:
				st.Reweight(2)
			case 3:
				var b []byte
				st.Encode(&b, enc.FlagTypePositiveStore)
			default:
				switch o.index % 6 {
				case 0:
					st.KeyAtRank(o.w)
				case 1:
					st.ForEach(func(int, float64) bool { return false })
				case 2:
					for range st.Bins() {
					}
				case 3:
					st.ToProto()
				case 4:
					st.MinIndex()
					st.MaxIndex()
					st.TotalCount()
				default:
					x := st.Copy()
					x.Clear()
				}
			}
		}
	}
	h0, oa, ob := genOps(r, r.Range(1, 120)), genOps(r.Fork(), r.Range(10, 120)), genOps(r.Fork(), r.Range(10, 120))
	S := spec.New()
	run(S, h0)
	cp := S.Copy()
	var wg sync.WaitGroup
	start := make(chan struct{})
	wg.Add(2)
	go func() { defer wg.Done(); <-start; run(S, oa) }()
	go func() { defer wg.Done(); <-start; run(cp, ob) }()
	close(start)
	wg.Wait()
	TA, TB := spec.New(), spec.New()
	run(TA, h0)
	run(TA, oa)
	run(TB, h0)
	run(TB, ob)
	cmp := func(a, b store.Store) bool {
		x, _, _ := mon.ForEachBins(a)
		y, _, _ := mon.ForEachBins(b)
		if len(x) != len(y) {
			return false
		}
		for i := range x {
			if x[i] != y[i] {
				return false
			}
		}
		return true
	}
	if !cmp(TA, S) {
		return "store differs from its sequential twin (" + spec.String() + ")", len(h0) + len(oa) + len(ob)
	}
	if !cmp(TB, cp) {
		return "store copy differs from its sequential twin (" + spec.String() + ")", len(h0) + len(oa) + len(ob)
	}
	return "", len(h0) + len(oa) + len(ob)
}

// RaceMain is the entry point of the race-instrumented binary: vh-race race <seed> <from> <to>.
func RaceMain(seed uint64, from, to int) int {
	type res struct {
		Pairs      int            `json:"pairs"`
		Steps      int            `json:"steps"`
		Mismatches []string       `json:"mismatches"`
		Relations  map[string]int `json:"relations"`
	}
	out := res{Relations: map[string]int{}}
	for i := from; i < to; i++ {
		raceRelation = "store_copy"
		mm, n := RacePair(seed, i)
		out.Relations[raceRelation]++
		out.Pairs++
		out.Steps += n
		if mm != "" && len(out.Mismatches) < 5 {
			out.Mismatches = append(out.Mismatches, fmt.Sprintf("pair %d: %s", i, mm))
		}
	}
	b, _ := json.Marshal(out)
	fmt.Println(string(b))
	return 0
}

var frameRe = regexp.MustCompile(`^\s+([\w./*()\-]+)\(`)

// raceC14 runs the race pass from the parent of the C14 check.
func raceC14(p *core.PostCtx) {
	exe, _ := os.Executable()
	bin := filepath.Join(filepath.Dir(exe), "vh-race")
	if _, err := os.Stat(bin); err != nil {
		p.Incon = append(p.Incon, "race-instrumented binary "+bin+" is missing (build it with ./check build)")
		return
	}
	pairs := 1200
	if p.Tier == "thorough" {
		pairs = 40000
	}
	nproc := 12
	per := (pairs + nproc - 1) / nproc
	type result struct {
		Pairs      int            `json:"pairs"`
		Steps      int            `json:"steps"`
		Mismatches []string       `json:"mismatches"`
		Relations  map[string]int `json:"relations"`
	}
	results := make([]result, nproc)
	errs := make([]error, nproc)
	var wg sync.WaitGroup
	start := time.Now()
	for k := 0; k < nproc; k++ {
		wg.Add(1)
		go func(k int) {
			defer wg.Done()
			from, to := k*per, (k+1)*per
			if to > pairs {
				to = pairs
			}
			if from >= to {
				return
			}
			cmd := exec.Command(bin, "race", strconv.FormatUint(p.Seed, 10), strconv.Itoa(from), strconv.Itoa(to))
			cmd.Env = append(os.Environ(), "GORACE=halt_on_error=0 log_path="+filepath.Join(p.OutDir, fmt.Sprintf("race_%d", k)))
			var stdout bytes.Buffer
			cmd.Stdout = &stdout
			errf, _ := os.Create(filepath.Join(p.OutDir, fmt.Sprintf("race_%d.stderr", k)))
			cmd.Stderr = errf
			done := make(chan error, 1)
			if err := cmd.Start(); err != nil {
				errs[k] = err
				return
			}
			go func() { done <- cmd.Wait() }()
			select {
			case err := <-done:
				// the race runtime exits with 66 when it reported races; that is handled through the logs
				if err != nil && !strings.Contains(err.Error(), "exit status 66") {
					errs[k] = err
				}
			case <-time.After(2 * time.Hour):
				cmd.Process.Kill()
				<-done
				errs[k] = fmt.Errorf("watchdog")
			}
			errf.Close()
			line := strings.TrimSpace(stdout.String())
			if i := strings.LastIndex(line, "\n"); i >= 0 {
				line = line[i+1:]
			}
			json.Unmarshal([]byte(line), &results[k])
		}(k)
	}
	wg.Wait()
	total := result{}
	for k := range results {
		if errs[k] != nil {
			p.Incon = append(p.Incon, fmt.Sprintf("race pass process %d failed: %v (see %s/race_%d.stderr)", k, errs[k], p.OutDir, k))
		}
		for rel, n := range results[k].Relations {
			p.Counters["race.pairs."+rel] += int64(n)
		}
		total.Pairs += results[k].Pairs
		total.Steps += results[k].Steps
		total.Mismatches = append(total.Mismatches, results[k].Mismatches...)
	}
	// scan the race logs
	files, _ := filepath.Glob(filepath.Join(p.OutDir, "race_*"))
	reports := 0
	distinct := map[string]int{}
	firstFile := ""
	firstText := ""
	for _, f := range files {
		if strings.HasSuffix(f, ".stderr") {
			continue
		}
		b, err := os.ReadFile(f)
		if err != nil {
			continue
		}
		blocks := strings.Split(string(b), "WARNING: DATA RACE")
		for _, blk := range blocks[1:] {
			reports++
			// key: the library frames of both stacks, line numbers stripped
			var fr []string
			for _, l := range strings.Split(blk, "\n") {
				if m := frameRe.FindStringSubmatch(l); m != nil && strings.Contains(m[1], "sketches-go") {
					fr = append(fr, m[1])
				}
			}
			if len(fr) > 4 {
				fr = fr[:4]
			}
			key := strings.Join(fr, " <- ")
			distinct[key]++
			if firstFile == "" {
				firstFile = f
				firstText = blk
				if len(firstText) > 3000 {
					firstText = firstText[:3000]
				}
			}
		}
	}
	p.Counters["race.pairs"] += int64(total.Pairs)
	p.Counters["race.steps"] += int64(total.Steps)
	p.Counters["race.reports"] += int64(reports)
	keys := make([]string, 0, len(distinct))
	for k := range distinct {
		keys = append(keys, k)
	}
	sort.Strings(keys)
	p.Extra["race_pass"] = map[string]interface{}{
		"pairs_of_independent_objects_hammered_concurrently": total.Pairs,
		"operations_executed":                                total.Steps,
		"data_race_reports":                                  reports,
		"distinct_reports_by_library_frames":                 keys,
		"final_state_mismatches":                             len(total.Mismatches),
		"wall_s":                                             time.Since(start).Seconds(),
	}
	if reports > 0 {
		w := filepath.Join(p.OutDir, "witness_data_race.json")
		wj := map[string]interface{}{
			"property": "C14", "seed": p.Seed, "tier": p.Tier, "index": -1, "class": "race:shared_mutable_state",
			"message":       fmt.Sprintf("%d DATA RACE reports (%d distinct by library frames) between two objects that must be independent (copy, merge receiver/argument, identity conversion, decoded, rebuilt from message)", reports, len(distinct)),
			"distinct":      keys,
			"first_report":  firstText,
			"race_log":      firstFile,
			"how_to_replay": fmt.Sprintf("GORACE='halt_on_error=0' %s race %d 0 %d", bin, p.Seed, pairs),
		}
		b, _ := json.MarshalIndent(wj, "", " ")
		os.WriteFile(w, b, 0o644)
		p.Viol = append(p.Viol, core.PostViolation{Class: "race:shared_mutable_state", Msg: fmt.Sprintf("%d DATA RACE reports between independent objects (an object and its copy / merge receiver / conversion result / decoded or rebuilt twin); first: %s", reports, firstLineOf(keys)), Replay: w})
	}
	if len(total.Mismatches) > 0 {
		w := filepath.Join(p.OutDir, "witness_race_mismatch.json")
		wj := map[string]interface{}{"property": "C14", "seed": p.Seed, "tier": p.Tier, "index": -1, "class": "race:final_state_mismatch", "message": total.Mismatches[0], "all": total.Mismatches,
			"how_to_replay": fmt.Sprintf("%s race %d 0 %d", bin, p.Seed, pairs)}
		b, _ := json.MarshalIndent(wj, "", " ")
		os.WriteFile(w, b, 0o644)
		p.Viol = append(p.Viol, core.PostViolation{Class: "race:final_state_mismatch", Msg: total.Mismatches[0], Replay: w})
	}
}

func firstLineOf(keys []string) string {
	if len(keys) == 0 {
		return ""
	}
	return keys[0]
}
