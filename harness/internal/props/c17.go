package props

import (
	"math"

	"verif/harness/internal/core"
	"verif/harness/internal/gen"
	"verif/harness/internal/mon"
)

func init() {
	core.Register(&core.Prop{
		ID:    "C17",
		Level: "exploration",
		Rule: "case = source sketch (either variant, any non-collapsing store, both signs, zeros, unit or dyadic weights, values well inside both mappings' ranges after scaling) converted with ChangeMapping to a target mapping over all 9 ordered kind pairs x alpha pairs (coarser, finer, equal) into any store kind, scale in [1e-3,1e3] incl. 1, powers of two, random and bin-aligned factors LowerBound'(j)/LowerBound(i); " +
			"in 40% of the cases nothing is asked of the source before the conversion (its expected observation comes from a twin built by the same calls); oracle: result carries the requested mapping; source observation unchanged; zero weight bitwise kept; |W'-W| <= 1e-10 W; no bin of weight <= 0 and Min/MaxIndex are the extreme positive bins; per side and for every target-bin boundary t the interval transport (Hall) condition: weight of result bins entirely below t lies between the weight of source bins ending at or below t and the weight of source bins starting below t (up to slivers); " +
			"every quantile y satisfies y/(s*Value(i)) in [(1-a2)/(1+a1),(1+a2)/(1-a1)] for a source bin i whose cumulative interval is within 1 of q(W-1); identity conversion gives an equal, independent copy; exact statistics: count unchanged, min/max = fl(extreme*s), sum within the rounding bound. Non-trivial = bin-aligned factor, different kinds, or both signs; distinct = hash of (mappings, scale, items).",
		Cases:     core.Scale(20000, 500000),
		Mandatory: []string{"oracle.transport_checks", "oracle.quantile_checks", "oracle.batch_quantile_cases", "oracle.source_unchanged", "oracle.nonpositive_bin_checks", "scale.bin_aligned", "scale.one", "identity.cases", "exact.rescale_checks", "pair.log->cub", "pair.cub->lin", "pair.lin->log", "target.collapsing", "source.reweighted_before_conversion", "source.unread_before_conversion"},
		Assumptions: []string{
			"boundary classification tolerance 1e-9 relative, weight slivers 1e-9*W: a defect moving less than that is invisible",
			"values within a factor gamma^2*4 of either mapping's range ends are not sent (the property says 'well inside')",
		},
		Run: runC17,
	})
}

type srcBin struct {
	lo, hi float64 // scaled range [s*LB(i), s*LB(i+1))
	val    float64 // s*Value(i)
	w      float64
	a, b   float64 // cumulative interval in the sketch's rank order
}

func runC17(c *core.Ctx) {
	r := c.R
	// mappings: cover all ordered kind pairs
	k1, k2 := (c.Index/3)%3, c.Index%3
	alphas := []float64{0.001, 0.002, 0.005, 0.01, 0.02, 0.05, 0.1, 0.2}
	a1 := alphas[r.Intn(len(alphas))]
	a2 := alphas[r.Intn(len(alphas))]
	if r.P(0.25) {
		a2 = a1
	}
	m1, e1 := gen.NewMap(k1, a1)
	m2, e2 := gen.NewMap(k2, a2)
	if e1 != nil || e2 != nil {
		c.Failf("constructor", "mapping constructors failed: %v %v", e1, e2)
		return
	}
	if r.P(0.2) {
		if mm, err := gen.NewMapGamma(k2, m2.Gamma, gen.RandOffset(r, 1+r.Intn(2))); err == nil {
			mm.Alpha = a2
			m2 = mm
		}
	}
	identity := c.Index%10 == 9
	if identity {
		m2 = m1
		if r.Bool() {
			m2, _ = gen.NewMapGamma(m1.Kind, m1.Gamma, m1.Offset) // equal mapping, other object
		}
		c.Count("identity.cases", 1)
	}
	c.Count("pair."+m1.KindName()+"->"+m2.KindName(), 1)
	srcSpec := gen.RandPlainStore(r)
	dstSpec := gen.RandAnyStore(r)
	if dstSpec.Collapsing() {
		dstSpec.N = 2048
	}
	exact := r.P(0.4)

	// source values well inside both ranges: centre in [1e-20,1e20], spread <= 60 source bins
	centre := r.LogUniform(1e-6, 1e6)
	if r.P(0.3) {
		centre = r.LogUniform(1e-20, 1e20)
	}
	ci := m1.M.Index(centre)
	n := r.Range(1, 60)
	if r.P(0.15) {
		n = r.Range(60, 300)
	}
	spread := []int{0, 1, 3, 10, 40}[r.Intn(5)]
	if dstSpec.Collapsing() && float64(2*spread+3)*math.Atanh(a1)/math.Atanh(a2) > 1200 {
		dstSpec = gen.RandPlainStore(r) // the result would not fit the bounded store: folding is C05's business
	} else if dstSpec.Collapsing() {
		c.Count("target.collapsing", 1)
	}
	signMode := r.Intn(4) // 0 pos, 1 neg, 2 mixed, 3 mixed+zeros
	var items []mon.Item
	for i := 0; i < n; i++ {
		var v float64
		if r.Bool() {
			v, _ = m1.EdgeValue(r, ci, spread)
		} else {
			v = m1.M.LowerBound(ci+r.Range(-spread, spread)) * (1 + r.Float()*2*a1)
		}
		switch signMode {
		case 1:
			v = -v
		case 2, 3:
			if r.Bool() {
				v = -v
			}
		}
		if signMode == 3 && r.P(0.2) {
			v = 0
		}
		w := 1.0
		if r.P(0.4) {
			w = math.Ldexp(float64(r.Range(1, 64)), -r.Range(0, 4))
		}
		items = append(items, mon.Item{V: v, W: w})
	}
	src := mon.NewSketch(exact, m1.M, srcSpec)
	// unread source: nothing is asked of the source before it is converted (queries reorganise stores); what it
	// must look like is then taken from a twin built by the same calls
	unread := r.P(0.4)
	twin := mon.NewSketch(exact, m1.M, srcSpec)
	md := mon.NewSketchModel(m1, srcSpec)
	if r.P(0.25) {
		// an earlier life of the source (and of its twin): the same items with other weights, then Clear - memory
		// retained by Clear must not be shared with what a conversion (in particular the identity one) returns
		for _, k := range []mon.Sketch{src, twin} {
			for _, it := range items {
				k.I().AddWithCount(it.V, it.W+1.5)
			}
			k.I().Clear()
		}
		c.Count("source.used_and_cleared_before", 1)
	}
	for _, it := range items {
		c.SigF(it.V)
		c.SigF(it.W)
		var err error
		if it.W == 1 && unread {
			err = src.I().Add(it.V)
			twin.I().Add(it.V)
		} else {
			err = src.I().AddWithCount(it.V, it.W)
			if unread {
				twin.I().AddWithCount(it.V, it.W)
			}
		}
		if err != nil {
			c.Failf("AddWithCount.rejected", "AddWithCount(%v,%v): %v", it.V, it.W, err)
			return
		}
		md.Add(it.V, it.W)
	}

	if r.P(0.3) && n > 0 {
		// the source has been reweighted before the conversion (dyadic factor: the model stays exact)
		f := []float64{0.25, 0.5, 2, 3, 8}[r.Intn(5)]
		if err := src.I().Reweight(f); err != nil {
			c.Failf("Reweight.error", "Reweight(%v): %v", f, err)
			return
		}
		if unread {
			twin.I().Reweight(f)
		}
		md.Scale(f)
		for i := range items {
			items[i].W *= f
		}
		c.Count("source.reweighted_before_conversion", 1)
		c.Logf("source.Reweight(%v)", f)
	}
	// scale factor
	var scale float64
	aligned := false
	switch {
	case identity:
		scale = 1
	default:
		switch r.Pick(2, 2, 3, 4) {
		case 0:
			scale = 1
		case 1:
			scale = math.Ldexp(1, r.Range(-9, 9))
		case 2:
			scale = r.LogUniform(1e-3, 1e3)
		default:
			// bin-aligned: s*LowerBound(i) coincides with a bound of the target mapping
			keys := md.Pos.Keys()
			if len(keys) == 0 {
				keys = md.Neg.Keys()
			}
			if len(keys) == 0 {
				scale = 2
				break
			}
			i := keys[r.Intn(len(keys))] + r.Range(0, 1)
			s0 := r.LogUniform(0.01, 100)
			lb := m1.M.LowerBound(i)
			j := m2.M.Index(lb * s0)
			scale = m2.M.LowerBound(j) / lb
			if !(scale >= 1e-3 && scale <= 1e3) {
				scale = 1
			} else {
				aligned = true
				c.Count("scale.bin_aligned", 1)
			}
		}
	}
	if scale == 1 {
		c.Count("scale.one", 1)
	}
	c.SigF(scale)
	c.SigS(m1.Desc)
	c.SigS(m2.Desc)
	c.Logf("source: exact=%v %s in %s, %d items around %g (sign mode %d); ChangeMapping -> %s into %s, scale %v (bin-aligned=%v)", exact, m1.Desc, srcSpec, n, centre, signMode, m2.Desc, dstSpec, scale, aligned)
	if c.TraceOn {
		c.Logf("items: %v", truncItems(items, 40))
	}

	var before *mon.Obs
	if !unread {
		before = mon.Observe(src, nil)
	}
	var res mon.Sketch
	if c.Guard("ChangeMapping", func() { res = src.ChangeMapping(m2.M, dstSpec, scale) }) {
		return
	}
	if unread {
		c.Count("source.unread_before_conversion", 1)
		if identity {
			// the result is read before the source is
			mon.Observe(res, nil)
		}
		before = mon.Observe(twin, nil)
	}
	c.Count("oracle.source_unchanged", 1)
	if d := before.Diff(mon.Observe(src, nil)); d != "" {
		c.Failf("source_changed", "ChangeMapping changed its source: %s", d)
		return
	}
	if !res.Mapping().Equals(m2.M) || !m2.M.Equals(res.Mapping()) {
		c.Failf("result_mapping", "the result does not carry the requested mapping %s", m2.Desc)
		return
	}
	rk := res.I()
	if z := rk.GetZeroCount(); math.Float64bits(z) != math.Float64bits(md.Zero) {
		c.Failf("zero_weight", "zero weight %v became %v", md.Zero, z)
	}
	W := md.Total()
	W2 := rk.GetCount()
	if exact {
		// the exact variant reports the exact count: must be unchanged bit for bit
		if W2 != W {
			c.Failf("exact.count", "exact count %v became %v", W, W2)
		}
		W2 = rk.GetZeroCount() + rk.GetPositiveValueStore().TotalCount() + rk.GetNegativeValueStore().TotalCount()
	}
	if math.Abs(W2-W) > 1e-10*W {
		c.Failf("total_weight", "total weight %v became %v (relative drift %g)", W, W2, math.Abs(W2-W)/W)
	}
	c.Max("total_weight_relative_drift", math.Abs(W2-W)/W)

	if identity {
		// exact copy, independent
		if d := before.Diff(mon.Observe(res, nil)); d != "" {
			c.Failf("identity_not_copy", "conversion with an equal mapping and scale 1 is not an exact copy (source vs result): %s", d)
			return
		}
		// (a reweighting first in half of the cases: a copy that has not been written to yet)
		rwFirst := r.Bool()
		c.Guard("identity.independence", func() {
			if rwFirst {
				res.I().Reweight([]float64{2, 0.5, 0x1p-12}[r.Intn(3)])
			}
			res.I().Add(m1.ClampIn(centre * 3))
			res.I().AddWithCount(-m1.ClampIn(centre), 2)
			for i := 0; i < 3 && i < len(items); i++ {
				res.I().AddWithCount(items[r.Intn(len(items))].V, 2.5) // into bins (pages) both may hold
			}
			if !rwFirst {
				res.I().Reweight(2)
			}
		})
		if d := before.Diff(mon.Observe(src, nil)); d != "" {
			c.Failf("identity_aliases_source", "mutating the result of the identity conversion changed the source: %s", d)
		}
		snap := mon.Observe(res, nil)
		c.Guard("identity.independence", func() {
			if r.Bool() {
				src.I().Reweight(4)
			}
			src.I().Add(m1.ClampIn(centre * 5))
			src.I().Clear()
		})
		if d := snap.Diff(mon.Observe(res, nil)); d != "" {
			c.Failf("identity_aliases_result", "mutating the source changed the result of the identity conversion: %s", d)
		}
		c.NonTrivial()
		return
	}

	// per-side checks
	type sideT struct {
		name string
		srcM map[int]float64
		keys []int
		st   interface {
			ForEach(func(int, float64) bool)
			MinIndex() (int, error)
			MaxIndex() (int, error)
		}
	}
	sides := []sideT{
		{"positive", md.Pos.W, md.Pos.Keys(), rk.GetPositiveValueStore()},
		{"negative", md.Neg.W, md.Neg.Keys(), rk.GetNegativeValueStore()},
	}
	eps := 1e-9
	resBins := map[string][]mon.KV{}
	for _, sd := range sides {
		bins, dup, nonpos := mon.ForEachBins(rk.GetPositiveValueStore())
		if sd.name == "negative" {
			bins, dup, nonpos = mon.ForEachBins(rk.GetNegativeValueStore())
		}
		resBins[sd.name] = bins
		c.Count("oracle.nonpositive_bin_checks", 1)
		if nonpos || dup {
			c.Failf("nonpositive_bin", "%s side of the result holds a bin with weight <= 0 or a duplicate: %v", sd.name, bins)
			return
		}
		var chanBins []mon.KV
		if sd.name == "negative" {
			chanBins = mon.ChanBins(rk.GetNegativeValueStore())
		} else {
			chanBins = mon.ChanBins(rk.GetPositiveValueStore())
		}
		for _, b := range chanBins {
			if !(b.W > 0) {
				c.Failf("nonpositive_bin", "%s side: Bins() yields (%d, %v)", sd.name, b.K, b.W)
				return
			}
		}
		mi, e1 := sd.st.MinIndex()
		ma, e2 := sd.st.MaxIndex()
		if len(bins) > 0 {
			if e1 != nil || e2 != nil || mi != bins[0].K || ma != bins[len(bins)-1].K {
				c.Failf("extreme_index", "%s side: MinIndex/MaxIndex = %d/%d (%v,%v) but the bins with positive weight span %d..%d", sd.name, mi, ma, e1, e2, bins[0].K, bins[len(bins)-1].K)
				return
			}
		} else if len(sd.keys) > 0 {
			c.Failf("side_lost", "%s side of the source holds weight, the result holds none", sd.name)
			return
		}
		if len(sd.keys) == 0 {
			if len(bins) > 0 {
				c.Failf("side_created", "%s side of the source is empty, the result holds %v", sd.name, bins)
			}
			continue
		}
		// transport condition at every target-bin boundary
		var sb []srcBin
		for _, i := range sd.keys {
			sb = append(sb, srcBin{lo: m1.M.LowerBound(i) * scale, hi: m1.M.LowerBound(i+1) * scale, w: sd.srcM[i]})
		}
		bounds := map[float64]bool{}
		for _, b := range bins {
			bounds[m2.M.LowerBound(b.K)] = true
			bounds[m2.M.LowerBound(b.K+1)] = true
		}
		Ws := 0.0
		for _, s := range sb {
			Ws += s.w
		}
		sliver := 1e-9 * Ws
		for t := range bounds {
			below := 0.0 // result bins entirely below t
			for _, b := range bins {
				if m2.M.LowerBound(b.K+1) <= t*(1+eps) {
					below += b.W
				}
			}
			maxBelow, minBelow := 0.0, 0.0
			for _, s := range sb {
				if s.lo < t*(1+eps) {
					maxBelow += s.w // may send weight below t
				}
				if s.hi <= t*(1-eps) {
					minBelow += s.w // must send all its weight below t
				}
			}
			c.Count("oracle.transport_checks", 1)
			if below > maxBelow+sliver {
				c.Failf("transport.too_much_below", "%s side: result bins below %v hold %v but only %v of source weight starts below it (scale %v, %s -> %s)", sd.name, t, below, maxBelow, scale, m1.Desc, m2.Desc)
				return
			}
			if below < minBelow-sliver {
				c.Failf("transport.too_little_below", "%s side: result bins below %v hold %v but %v of source weight ends at or below it (scale %v, %s -> %s)", sd.name, t, below, minBelow, scale, m1.Desc, m2.Desc)
				return
			}
		}
	}

	// quantiles
	var order []srcBin
	cum := 0.0
	negKeys := md.Neg.Keys()
	for i := len(negKeys) - 1; i >= 0; i-- {
		k := negKeys[i]
		w := md.Neg.W[k]
		order = append(order, srcBin{val: -m1.M.Value(k) * scale, w: w, a: cum, b: cum + w})
		cum += w
	}
	if md.Zero > 0 {
		order = append(order, srcBin{val: 0, w: md.Zero, a: cum, b: cum + md.Zero})
		cum += md.Zero
	}
	for _, k := range md.Pos.Keys() {
		w := md.Pos.W[k]
		order = append(order, srcBin{val: m1.M.Value(k) * scale, w: w, a: cum, b: cum + w})
		cum += w
	}
	al1, al2 := m1.M.RelativeAccuracy(), m2.M.RelativeAccuracy()
	loR, hiR := (1-al2)/(1+al1)*(1-1e-9), (1+al2)/(1-al1)*(1+1e-9)
	qs := append([]float64{}, mon.ObsGrid...)
	for i := 0; i < 8; i++ {
		qs = append(qs, r.Float())
	}
	mn, _ := rk.GetMinValue()
	mx, _ := rk.GetMaxValue()
	// half of the results are asked through the batch query (an entry point of its own), the others one by one
	useBatch := r.Bool()
	var batch, batchPlain []float64
	if useBatch {
		var berr, perr error
		if c.Guard("GetValuesAtQuantiles", func() {
			batch, berr = rk.GetValuesAtQuantiles(qs)
			if exact {
				batchPlain, perr = res.E.DDSketch.GetValuesAtQuantiles(qs)
			}
		}) {
			return
		}
		if berr != nil || perr != nil || len(batch) != len(qs) || (exact && len(batchPlain) != len(qs)) {
			c.Failf("quantile.error", "GetValuesAtQuantiles(%d valid q) on the result: %d answers, %v %v", len(qs), len(batch), berr, perr)
			return
		}
		c.Count("oracle.batch_quantile_cases", 1)
	}
	for qi, q := range qs {
		var y float64
		var err error
		if useBatch {
			y = batch[qi]
		} else {
			y, err = rk.GetValueAtQuantile(q)
		}
		if err != nil {
			c.Failf("quantile.error", "GetValueAtQuantile(%v) on the result: %v", q, err)
			return
		}
		yr := y
		if exact {
			var yp float64
			if useBatch {
				yp = batchPlain[qi]
			} else {
				yp, _ = res.E.DDSketch.GetValueAtQuantile(q)
			}
			want := math.Max(mn, math.Min(mx, yp))
			if y != want && dstSpec.Kind != gen.SSparse {
				c.Failf("exact.clamp", "q=%v: exact result answered %v, expected clamp(%v,%v,%v)", q, y, yp, mn, mx)
				return
			}
			if dstSpec.Kind != gen.SSparse {
				yr = yp
			} else if y == mn || y == mx {
				continue // clamped answer of a store whose totals depend on iteration order: only the range is checked
			}
		}
		c.Count("oracle.quantile_checks", 1)
		rank := q * (W - 1)
		ok := false
		for _, s := range order {
			if s.b < rank-1-1e-6*math.Max(1, W) || s.a > rank+1+1e-6*math.Max(1, W) {
				continue
			}
			if s.val == 0 {
				if yr == 0 {
					ok = true
				}
				continue
			}
			ratio := yr / s.val
			if ratio >= loR && ratio <= hiR {
				ok = true
			}
		}
		if !ok {
			c.Failf("quantile.combined_accuracy", "q=%v: result answer %v is not within the combined accuracy [(1-a2)/(1+a1),(1+a2)/(1-a1)]=[%g,%g] of s*Value(i) for any source bin within one unit of weight of rank %v (scale %v, %s -> %s)", q, yr, loR, hiR, rank, scale, m1.Desc, m2.Desc)
			return
		}
	}

	if exact {
		c.Count("exact.rescale_checks", 1)
		es := statsOf(items)
		if es.n > 0 {
			if mn != es.min*scale || mx != es.max*scale {
				c.Failf("exact.extremes", "exact min/max [%v,%v] became [%v,%v], expected [%v,%v]", es.min, es.max, mn, mx, es.min*scale, es.max*scale)
			}
			got := rk.GetSum()
			want := es.sum * scale
			bound := 32 * 0x1p-53 * es.absSum * scale
			if !(math.Abs(got-want) <= bound) {
				c.Failf("exact.sum", "exact sum %v rescaled by %v gives %v, expected %v (|diff| %g > %g)", es.sum, scale, got, want, math.Abs(got-want), bound)
			}
		}
	}
	bothSigns := len(md.Pos.W) > 0 && len(md.Neg.W) > 0
	if aligned || k1 != k2 || bothSigns {
		c.NonTrivial()
		nb := len(resBins["positive"]) + len(resBins["negative"])
		c.Sample(map[string]interface{}{"from": m1.Desc, "to": m2.Desc, "scale": scale, "bin_aligned": aligned, "exact": exact, "source_items": n, "result_bins": nb, "target_store": dstSpec.String()})
	}
}
