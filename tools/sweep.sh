#!/bin/bash
# tools/sweep.sh <tier> <seed>... : run every check at the given seeds, print one line per run that is not "held"
tier="$1"; shift
cd /verif && ./check build || exit 2
for seed in "$@"; do
  for id in $(./bin/vh list); do
    out=$(VERIF_SEED=$seed ./bin/vh run "$id" "$tier" 2>&1); rc=$?
    line=$(echo "$out" | grep -E "seed=$seed:" | tail -1)
    if [ $rc -ne 0 ]; then echo "!! $id seed=$seed rc=$rc"; echo "$out" | head -12 | cut -c1-300; else echo "ok $line" | cut -c1-120; fi
  done
done
