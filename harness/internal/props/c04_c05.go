package props

import (
	"verif/harness/internal/core"
	"verif/harness/internal/gen"
	"verif/harness/internal/rng"
)

func init() {
	core.Register(&core.Prop{
		ID:    "C04",
		Level: "exploration",
		Rule: "case = seeded random walk (1-60 ops, 5% 100-400) over {Add, AddWithCount, AddBin, MergeWith(any of 5 kinds), Copy-and-continue, Clear, Reweight, Encode->Decode, ToProto->MergeWithProto (at once, or the message kept and merged some events later - up to three times, also into a cleared or new store that then goes on in place), hand-written blocks in the three documented bin layouts with signed deltas, negative/zero strides and repeated indexes decoded into the live store} " +
			"on a dense/sparse/paginated store with dyadic weights under an exactness budget, indexes clustered/near/page-aligned/growth-aligned/far around a window centre anywhere in int32, after a directed prefix; " +
			"every observer is compared with the exact index->weight map after every event (half of the walks), or - quiet walks - after 30% / 5% of the events and for every store alive at the end, so that sequences of events with no query in between are reached too. Non-trivial = >=3 distinct operation kinds and >=1 internal layout event seen through the hook; distinct = hash of (store kind, centre, length, PRNG state).",
		Cases:     core.Scale(24000, 600000),
		Mandatory: []string{"oracle.store_checks", "oracle.rank_probes_on_boundary", "layout.any", "event.MergeWith", "event.Reweight", "event.Decode", "event.Clear", "event.Copy", "quiet.histories", "quiet.events_without_query", "proto.kept_message_consumed_later", "proto.kept_message_consumed_again", "proto.kept_message_into_empty_receiver", "decode_block.stride.negative", "decode_block.positive.index_deltas", "decode_block.positive.index_deltas_and_counts"},
		Assumptions: []string{
			"weights are dyadic and budgeted so that float arithmetic is exact; arbitrary weights are not covered here",
			"KeyAtRank on an empty store, and the order of Bins(), are unspecified and not checked",
			"collapsing stores used as merge arguments are assumed to follow C05's fold model",
		},
		Run: func(c *core.Ctx) {
			spec := gen.StoreSpec{Kind: c.Index % 3}
			h := runStoreHistory(c, spec,
				func(r *rng.Rng) gen.StoreSpec { return gen.RandAnyStore(r) },
				func(sp gen.StoreSpec) bool { return !sp.Collapsing() })
			c.Count("cases."+spec.KindName(), 1)
			if len(h.opKinds) >= 3 && (c.CounterValue("layout.any") > 0) {
				c.NonTrivial()
				c.Sample(map[string]interface{}{"store": spec.String(), "index_window_centre": h.ig.centre, "op_kinds": keys(h.opKinds), "stores_in_history": len(h.pool)})
			}
		},
	})

	core.Register(&core.Prop{
		ID:    "C05",
		Level: "exploration",
		Rule: "store level: the C04 random walk on a collapsing-lowest/highest store with N from {1,2,3,4,5,8,16,31,32,33,64,100,128,1000,2048}, merges from every kind and every N' (incl. wide arguments into an empty or cleared receiver), " +
			"every observer compared after every event with the fold model (exact content with indexes beyond the edge folded into the edge bin), plus #bins<=N, span<=N and (hook) allocated length<=N; " +
			"sketch level: collapsing sketches on inputs wider than N, quantiles checked against the alpha bound when the true bin is retained, else against the edge bin. Non-trivial = a collapse happened (model folded weight); distinct = hash of (kind, N, centre, length, PRNG state).",
		Cases:     core.Scale(80000, 2000000),
		Mandatory: []string{"oracle.store_checks", "oracle.bound_checks", "layout.collapse", "merge.wide_into_empty_bounded_receiver", "sketch.queries_retained", "sketch.queries_collapsed", "quiet.histories", "decode_block.stride.negative"},
		Assumptions: []string{
			"weights are dyadic and budgeted so that float arithmetic is exact",
			"N >= 1",
		},
		Run: func(c *core.Ctx) {
			if c.Index%4 == 3 {
				runCollapsingSketchCase(c)
				return
			}
			spec := gen.StoreSpec{Kind: gen.SCLow + c.Index%2, N: gen.RandN(c.R)}
			h := runStoreHistory(c, spec,
				func(r *rng.Rng) gen.StoreSpec {
					if r.P(0.4) {
						return gen.StoreSpec{Kind: spec.Kind, N: gen.RandN(r)}
					}
					return gen.RandAnyStore(r)
				},
				func(sp gen.StoreSpec) bool { return sp.Collapsing() })
			c.Count("cases."+spec.KindName(), 1)
			folded := false
			for _, s := range h.pool {
				if s.Spec.Collapsing() && s.M.Folded {
					folded = true
				}
			}
			if folded || c.CounterValue("layout.collapse") > 0 {
				c.NonTrivial()
				c.Sample(map[string]interface{}{"store": spec.String(), "index_window_centre": h.ig.centre, "op_kinds": keys(h.opKinds), "stores_in_history": len(h.pool)})
			}
		},
	})
}

func keys(m map[string]bool) []string {
	var out []string
	for k := range m {
		out = append(out, k)
	}
	sortStrings(out)
	return out
}
