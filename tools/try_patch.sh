#!/bin/bash
# tools/try_patch.sh <patch-file|-R:sha> <ID>... : apply a patch to /repo, run the quick checks, undo.
set -u
P="$1"; shift
cd /repo || exit 2
if ! git diff --quiet; then echo "/repo is dirty"; exit 2; fi
if [[ "$P" == -R:* ]]; then git show "${P#-R:}" | git apply -R || exit 2; else git apply "$P" || exit 2; fi
for id in "$@"; do
  out=$(/verif/check "$id" quick 2>&1); rc=$?
  echo "== $id rc=$rc"; echo "$out" | grep -E "VIOLATION|class=|INCONCLUSIVE|held|violated" | head -${LINES_MAX:-6} | cut -c1-260
done
git -C /repo checkout -- . ; git -C /repo status --short | head -3
