package props

import (
	"math"
	"sort"

	"github.com/DataDog/sketches-go/ddsketch"

	"verif/harness/internal/core"
	"verif/harness/internal/gen"
	"verif/harness/internal/mon"
	"verif/harness/internal/rng"
)

func alphaDecade(a float64) string {
	switch {
	case a < 1e-5:
		return "1e-6"
	case a < 1e-4:
		return "1e-5"
	case a < 1e-3:
		return "1e-4"
	case a < 1e-2:
		return "1e-3"
	case a < 1e-1:
		return "1e-2"
	default:
		return "1e-1+"
	}
}

// normalisedSorted returns the values sorted with magnitudes below Min replaced by 0.
func normalisedSorted(m *gen.Map, vals []float64) []float64 {
	out := make([]float64, len(vals))
	for i, v := range vals {
		if math.Abs(v) < m.Min {
			v = 0
		}
		out[i] = v
	}
	sort.Float64s(out)
	return out
}

// inSameBin tells whether y lies in the bin (sign and index, or the zero bucket) that holds x.
func inSameBin(m *gen.Map, y, x float64) bool {
	ax := math.Abs(x)
	if ax < m.Min {
		return y == 0
	}
	same := y != 0 && (y < 0) == (x < 0) && m.M.Index(math.Abs(y)) == m.M.Index(ax)
	if ax == m.Min {
		return y == 0 || same
	}
	return same
}

func init() {
	core.Register(&core.Prop{
		ID:    "C01",
		Level: "exploration",
		Rule: "case = (mapping kind x alpha in [1e-6,0.99] x index-offset regime, store in {dense,sparse,paginated}, sign pattern, n in [1,2000] values drawn from bin edges +-k ulps, binade boundaries, range ends, sub-minimum magnitudes, duplicates, clusters) added one at a time; " +
			"queries = 0, 1, every k/(n-1) and its float neighbours (all k for n<=64, else 64 sampled), random q, single and batch, asked after the whole input and (half of the cases) also at 1-2 checkpoints inside it; oracle = answer within (alpha+64u) of the order statistic at floor or ceil of the exact q*(n-1) (big.Rat), q=0/1 in the bin of the true extreme. " +
			"Non-trivial = n>=3, >=1 value within 8 ulps of a bin edge or at a range end, >=1 q at an integer rank; distinct = hash of (mapping, store, pattern, values).",
		Cases:     core.Scale(60000, 1500000),
		Mandatory: []string{"oracle.quantile_checks", "query.at_integer_rank", "value.edge", "value.end", "value.zero_bucket", "oracle.extreme_bin_checks", "query.at_checkpoint_inside_input"},
		Assumptions: []string{
			"floating-point slack 64*u(v) (DESIGN.md §3.6): defects smaller than ~1e-11 relative are invisible",
			"|v| == MinIndexableValue exactly may be treated as zero or as indexed",
		},
		Run: runC01,
	})
	core.Register(&core.Prop{
		ID:    "C02",
		Level: "exploration",
		Rule: "case = one input (zeros, both signs, duplicates, edge values) fed to a single sketch and, partitioned at random into 1-8 parts (some empty or cleared after use), to sketches of independently chosen non-collapsing store kinds sharing an equal mapping (same object, rebuilt from gamma/offset, or decoded); " +
			"parts merged along a random binary tree / left-deep / right-deep order by MergeWith or DecodeAndMergeWith(Encode(part)); oracle = bitwise equality of the full observation (bins, zero weight, count, extremes, quantile grid) with the single sketch, argument snapshot unchanged by each merge, empty merge is a no-op. " +
			"Non-trivial = >=2 non-empty parts of different store kinds and >=1 zero value; distinct = hash of (mapping, values, partition, tree).",
		Cases:     core.Scale(60000, 1500000),
		Mandatory: []string{"oracle.merge_equalities", "oracle.argument_unchanged", "merge.empty_argument", "merge.via_decode", "merge.cross_kind", "part.cleared_before_use", "part.cleared_before_use.other_range", "merge.into_a_copy_of_the_receiver", "oracle.argument_unchanged_later", "part.copy_of_a_cleared_prototype"},
		Assumptions: []string{
			"unit weights: all sums exact, so bitwise equality is legitimate",
		},
		Run: runC02,
	})
}

func runC01(c *core.Ctx) {
	r := c.R
	m := gen.RandMap(r, false)
	sp := gen.StoreSpec{Kind: c.Index % 3}
	pattern := signPatterns[r.Intn(len(signPatterns))]
	n := randN(r, 2000)
	if c.Tier == "thorough" && c.Index%5000 == 11 {
		n = r.Range(50000, 300000) // soak: large inputs
		c.Count("soak.inputs", 1)
	}
	maxSigma := 2000.0
	if sp.Kind == gen.SDense {
		maxSigma = 300
	}
	vs := genValues(c, r, m, sp, n, pattern, randSigmaIdx(r, maxSigma))
	c.Logf("mapping %s store %s pattern %s n=%d centre index %d", m.Desc, sp, pattern, len(vs.vals), vs.ci)
	c.SigS(m.Desc)
	c.SigS(sp.String())
	c.SigS(pattern)
	s := mon.NewSketch(false, m.M, sp)
	c.Count("cases."+m.KindName()+"."+sp.KindName()+"."+alphaDecade(m.Alpha), 1)
	// queries may come at any time: up to two checkpoints inside the input, then the full input
	checkpoints := map[int]bool{}
	if len(vs.vals) >= 4 && r.P(0.5) {
		for i := r.Range(1, 2); i > 0; i-- {
			checkpoints[r.Range(1, len(vs.vals)-1)] = true
		}
	}
	atInt, nn, nqs := 0, 0, 0
	// checkQuantiles queries the sketch holding vals[:k] and compares with the order statistics of that prefix
	checkQuantiles := func(k int, light bool) bool {
		sorted := normalisedSorted(m, vs.vals[:k])
		nn = len(sorted)
		qs, ai := quantileGrid(r, nn)
		if light && len(qs) > 24 {
			qs = qs[:24]
			ai = 0
			c.Count("query.at_checkpoint_inside_input", 1)
		}
		atInt += ai
		nqs += len(qs)
		c.Count("query.at_integer_rank", ai)
		var batch []float64
		var berr error
		if c.Guard("GetValuesAtQuantiles", func() { batch, berr = s.P.GetValuesAtQuantiles(qs) }) {
			return false
		}
		if berr != nil || len(batch) != len(qs) {
			c.Failf("batch.error", "GetValuesAtQuantiles on valid quantiles returned err=%v len=%d", berr, len(batch))
			return false
		}
		for i, q := range qs {
			var y float64
			var err error
			if c.Guard("GetValueAtQuantile", func() { y, err = s.P.GetValueAtQuantile(q) }) {
				return false
			}
			if err != nil {
				c.Failf("quantile.error", "GetValueAtQuantile(%v) on a non-empty sketch returned %v", q, err)
				return false
			}
			if !(batch[i] == y) {
				c.Failf("batch.differs", "batch answer %v differs from single answer %v at q=%v", batch[i], y, q)
			}
			fl, ce := exactRank(q, int64(nn-1))
			xlo, xhi := sorted[fl], sorted[ce]
			c.Count("oracle.quantile_checks", 1)
			if !(m.Matches(y, xlo) || m.Matches(y, xhi)) {
				c.Failf("accuracy", "after %d additions, q=%v: answer %v not within alpha=%g of x[%d]=%v nor x[%d]=%v (rel.err %g / %g, slack %g) mapping %s store %s",
					nn, q, y, m.M.RelativeAccuracy(), fl, xlo, ce, xhi, relErr(y, xlo), relErr(y, xhi), m.Slack(xlo), m.Desc, sp)
				return false
			}
			if y != 0 {
				best := math.Inf(1)
				for _, x := range []float64{xlo, xhi} {
					if x != 0 && m.Matches(y, x) {
						if e := (relErr(y, x) - m.M.RelativeAccuracy()) / m.U(x); e < best {
							best = e
						}
					}
				}
				c.Max("accuracy_excess_over_alpha_in_units_of_u", best)
			}
			if q == 0 || q == 1 {
				x := sorted[0]
				if q == 1 {
					x = sorted[nn-1]
				}
				c.Count("oracle.extreme_bin_checks", 1)
				if !inSameBin(m, y, x) {
					c.Failf("extreme_bin", "q=%v: answer %v does not lie in the bin of the true extreme %v (representative %v) mapping %s store %s",
						q, y, x, math.Copysign(m.M.Value(m.M.Index(math.Abs(x))), x), m.Desc, sp)
				}
			}
		}
		return true
	}
	for i, v := range vs.vals {
		c.SigF(v)
		var err error
		if c.Guard("Add", func() { err = s.P.Add(v) }) {
			return
		}
		if err != nil {
			c.Failf("Add.rejected", "Add(%v) of a trackable value returned %v (min %v max %v)", v, err, m.Min, m.Max)
			return
		}
		if checkpoints[i+1] {
			if r.Bool() && math.Abs(v) > m.Min {
				// a copy taken here goes its own way (values of both signs): nothing of it may reach this sketch
				c.Guard("Copy", func() {
					cp := s.P.Copy()
					cp.Add(v)
					// the opposite sign only when that side is still empty here (any single index fits an empty store)
					other := s.P.GetNegativeValueStore()
					if v < 0 {
						other = s.P.GetPositiveValueStore()
					}
					if other.IsEmpty() {
						cp.Add(-v)
					}
					cp.Add(0)
				})
				c.Count("checkpoint.copy_went_its_own_way", 1)
			}
			c.Logf("checkpoint: queries after %d additions", i+1)
			if !checkQuantiles(i+1, true) {
				return
			}
		}
	}
	if c.TraceOn {
		c.Logf("values: %v", trunc(vs.vals, 40))
	}
	if !checkQuantiles(len(vs.vals), false) {
		return
	}
	if nn >= 3 && (vs.classes["edge"] > 0 || vs.classes["end"] > 0) && atInt > 0 {
		c.NonTrivial()
		c.Sample(map[string]interface{}{"mapping": m.Desc, "store": sp.String(), "pattern": pattern, "n": nn, "first_values": trunc(vs.vals, 6), "queries": nqs, "checkpoints_inside_input": len(checkpoints)})
	}
}

func relErr(y, x float64) float64 {
	if x == 0 {
		if y == 0 {
			return 0
		}
		return math.Inf(1)
	}
	return math.Abs(y-x) / math.Abs(x)
}

func trunc(v []float64, n int) []float64 {
	if len(v) > n {
		return v[:n]
	}
	return v
}

// runCollapsingSketchCase is the sketch-level half of C05.
func runCollapsingSketchCase(c *core.Ctx) {
	r := c.R
	alpha := []float64{0.001, 0.005, 0.01, 0.02, 0.05, 0.1, 0.3}[r.Intn(7)]
	m, err := gen.NewMap(gen.KLog, alpha)
	if err != nil {
		c.Failf("constructor", "NewLogarithmicMapping(%v): %v", alpha, err)
		return
	}
	lowest := r.Bool()
	N := gen.RandN(r)
	var sk *ddsketch.DDSketch
	var sp gen.StoreSpec
	if lowest {
		sk, err = ddsketch.LogCollapsingLowestDenseDDSketch(alpha, N)
		sp = gen.StoreSpec{Kind: gen.SCLow, N: N}
	} else {
		sk, err = ddsketch.LogCollapsingHighestDenseDDSketch(alpha, N)
		sp = gen.StoreSpec{Kind: gen.SCHigh, N: N}
	}
	if err != nil || sk == nil {
		c.Failf("constructor", "collapsing sketch constructor(%v,%d): %v", alpha, N, err)
		return
	}
	pattern := signPatterns[r.Intn(len(signPatterns))]
	n := randN(r, 600)
	sigma := float64(N) * []float64{0.1, 0.5, 1, 3}[r.Intn(4)]
	if sigma > 3000 {
		sigma = 3000
	}
	vs := genValues(c, r, m, sp, n, pattern, sigma)
	c.Logf("collapsing sketch %s alpha=%v pattern %s n=%d sigma(bins)=%v", sp, alpha, pattern, len(vs.vals), sigma)
	c.SigS(sp.String())
	c.SigF(alpha)
	mdl := mon.NewSketchModel(m, sp)
	s := mon.Sketch{P: sk}
	for _, v := range vs.vals {
		c.SigF(v)
		var err error
		if c.Guard("Add", func() { err = sk.Add(v) }) {
			return
		}
		if err != nil {
			c.Failf("Add.rejected", "Add(%v) returned %v", v, err)
			return
		}
		mdl.Add(v, 1)
	}
	if c.TraceOn {
		c.Logf("values: %v", trunc(vs.vals, 60))
	}
	mon.CheckSketchBins(c, sp.KindName(), s, mdl)
	sorted := normalisedSorted(m, vs.vals)
	nn := len(sorted)
	qs, _ := quantileGrid(r, nn)
	// retained(x): is the bin of x kept on its side, or folded into the edge bin?
	retained := func(x float64) (bool, int, bool) {
		ax := math.Abs(x)
		if ax <= m.Min {
			return true, 0, false
		}
		side := mdl.Pos
		if x < 0 {
			side = mdl.Neg
		}
		idx := m.M.Index(ax)
		e, has := side.Edge()
		if !has {
			return true, 0, false
		}
		if lowest {
			return idx >= e, e, true
		}
		return idx <= e, e, true
	}
	for _, q := range qs {
		var y float64
		var err error
		if c.Guard("GetValueAtQuantile", func() { y, err = sk.GetValueAtQuantile(q) }) {
			return
		}
		if err != nil {
			c.Failf("quantile.error", "GetValueAtQuantile(%v) returned %v", q, err)
			return
		}
		fl, ce := exactRank(q, int64(nn-1))
		ok := false
		for _, x := range []float64{sorted[fl], sorted[ce]} {
			ret, edge, _ := retained(x)
			if ret {
				c.Count("sketch.queries_retained", 1)
				if m.Matches(y, x) {
					ok = true
				}
			} else {
				c.Count("sketch.queries_collapsed", 1)
				if y != 0 && (y < 0) == (x < 0) && m.M.Index(math.Abs(y)) == edge {
					ok = true
				}
			}
		}
		if !ok {
			c.Failf("collapsing.accuracy", "%s alpha=%v q=%v: answer %v matches neither x[%d]=%v nor x[%d]=%v (retained-bin alpha bound / edge bin rule)", sp, alpha, q, y, fl, sorted[fl], ce, sorted[ce])
			return
		}
	}
	if mdl.Pos.Folded || mdl.Neg.Folded {
		c.NonTrivial()
		c.Sample(map[string]interface{}{"sketch": sp.String(), "alpha": alpha, "pattern": pattern, "n": nn, "first_values": trunc(vs.vals, 6)})
	}
}

// ---------- C02 ----------

type mergeNode struct {
	leaf        int // part index, or -1
	left, right *mergeNode
}

func buildTree(r *rng.Rng, parts []int, shape int) *mergeNode {
	if len(parts) == 1 {
		return &mergeNode{leaf: parts[0]}
	}
	var cut int
	switch shape {
	case 0: // left-deep
		cut = len(parts) - 1
	case 1: // right-deep
		cut = 1
	default:
		cut = r.Range(1, len(parts)-1)
	}
	return &mergeNode{leaf: -1, left: buildTree(r, parts[:cut], shape), right: buildTree(r, parts[cut:], shape)}
}

// observeNoSum is the observation C02 compares: bins, zero weight, count, extremes, quantiles. The
// exact sum of the exact-summary variant is not part of the mergeability statement (it is bounded
// in C10; merging even an empty sketch may re-round its compensated sum in the last bit).
func observeNoSum(s mon.Sketch, extraQ []float64) *mon.Obs {
	o := mon.Observe(s, extraQ)
	o.HasSum = false
	return o
}

func runC02(c *core.Ctx) {
	r := c.R
	m := gen.RandMap(r, false)
	pattern := []string{"mixed+zeros", "mixed+zeros", "mixed", "zeros+neg", "zeros+pos", "pos", "neg", "zeros"}[r.Intn(8)]
	n := randN(r, 400)
	vs := genValues(c, r, m, gen.StoreSpec{Kind: gen.SDense}, n, pattern, randSigmaIdx(r, 300))
	c.SigS(m.Desc)
	k := r.Range(1, 8)
	// single sketch
	singleSpec := gen.RandPlainStore(r)
	exact := r.P(0.3) // the variant with exact summary statistics is a mergeable sketch too
	if exact {
		c.Count("variant.exact", 1)
	}
	single := mon.NewSketch(exact, m.M, singleSpec)
	type part struct {
		s    mon.Sketch
		spec gen.StoreSpec
		n    int
	}
	parts := make([]*part, k)
	for i := range parts {
		sp := gen.RandPlainStore(r)
		// an equal mapping: same object, or rebuilt from (gamma, offset) as a decoder would
		pm := m.M
		if r.P(0.4) {
			if mm, err := gen.NewMapGamma(m.Kind, m.Gamma, m.Offset); err == nil {
				pm = mm.M
				c.Count("mapping.rebuilt_from_gamma", 1)
			}
		}
		parts[i] = &part{s: mon.NewSketch(exact, pm, sp), spec: sp}
		// some parts are used and cleared before receiving their share
		if r.P(0.15) {
			// values of the input, or values up to 2000 bins beyond it on either side (nothing of that range may survive)
			f := 1.0
			if r.Bool() {
				f = math.Exp(float64(r.Range(50, 2000)) * m.LnG)
				if r.Bool() {
					f = 1 / f
				}
				c.Count("part.cleared_before_use.other_range", 1)
			}
			for j := 0; j < r.Range(1, 20) && j < len(vs.vals); j++ {
				v := vs.vals[r.Intn(len(vs.vals))]
				if a := math.Abs(v * f); a > m.Min*4 && a < m.Max/4 {
					v *= f
				}
				parts[i].s.I().Add(v)
			}
			parts[i].s.I().Clear()
			c.Count("part.cleared_before_use", 1)
		}
	}
	// pooled prototype: a sketch that was used and cleared, of which several parts are copies (taken while it is
	// empty; each copy then receives its own share)
	if k >= 2 && r.P(0.15) {
		sp := gen.RandPlainStore(r)
		proto := mon.NewSketch(exact, m.M, sp)
		for j := 0; j < r.Range(5, 80) && j < 4*len(vs.vals); j++ {
			// (weighted adds too: the paginated store puts them on pages at once, unit adds stay buffered)
			if r.Bool() {
				proto.I().AddWithCount(vs.vals[r.Intn(len(vs.vals))], 2)
			} else {
				proto.I().Add(vs.vals[r.Intn(len(vs.vals))])
			}
		}
		if r.Bool() {
			proto.I().GetValueAtQuantile(0.5)
		}
		proto.I().Clear()
		nCopies := 0
		for i := range parts {
			if i == 0 || r.P(0.6) {
				parts[i] = &part{s: proto.Copy(), spec: sp}
				nCopies++
			}
		}
		c.Count("part.copy_of_a_cleared_prototype", nCopies)
	}
	c.Logf("mapping %s single store %s, %d parts, pattern %s, n=%d", m.Desc, singleSpec, k, pattern, len(vs.vals))
	hasZero := false
	for _, v := range vs.vals {
		c.SigF(v)
		if math.Abs(v) <= m.Min {
			hasZero = true
		}
		if err := single.I().Add(v); err != nil {
			c.Failf("Add.rejected", "Add(%v) returned %v", v, err)
			return
		}
		var pi int
		if r.P(0.2) {
			pi = 0
		} else {
			pi = r.Intn(k)
		}
		c.SigI(pi)
		p := parts[pi]
		if err := p.s.I().Add(v); err != nil {
			c.Failf("Add.rejected", "Add(%v) returned %v", v, err)
			return
		}
		p.n++
	}
	nonEmptyKinds := map[int]bool{}
	nonEmpty := 0
	for i, p := range parts {
		c.Logf("part %d: store %s, %d values", i, p.spec, p.n)
		if p.n > 0 {
			nonEmpty++
			nonEmptyKinds[p.spec.Kind] = true
		}
	}
	shape := r.Intn(3)
	c.SigI(shape)
	c.Count([]string{"tree.left_deep", "tree.right_deep", "tree.random"}[shape], 1)
	order := r.Perm(k)
	tree := buildTree(r, order, shape)
	extraQ := []float64{}
	if nn := len(vs.vals); nn > 1 {
		for i := 0; i < 6; i++ {
			extraQ = append(extraQ, float64(r.Intn(nn))/float64(nn-1))
		}
	}
	type argSnap struct {
		p   *part
		obs *mon.Obs
	}
	var merged []argSnap // arguments of earlier merges: must never change afterwards either
	var eval func(t *mergeNode) *part
	failed := false
	eval = func(t *mergeNode) *part {
		if failed {
			return parts[0]
		}
		if t.leaf >= 0 {
			return parts[t.leaf]
		}
		a := eval(t.left)
		b := eval(t.right)
		if failed {
			return a
		}
		if r.P(0.25) {
			// the usual accumulator idiom: acc := first.Copy(); acc.MergeWith(next)...  The part the copy was taken
			// from stays as it is, whatever its copy absorbs from now on
			snap := observeNoSum(a.s, extraQ)
			var cp mon.Sketch
			if c.Guard("Copy", func() { cp = a.s.Copy() }) {
				failed = true
				return a
			}
			merged = append(merged, argSnap{a, snap})
			a = &part{s: cp, spec: a.spec, n: a.n}
			c.Count("merge.into_a_copy_of_the_receiver", 1)
		}
		// merge b into a
		before := observeNoSum(b.s, extraQ)
		var recvBefore *mon.Obs
		bEmpty := b.n == 0
		if bEmpty {
			recvBefore = observeNoSum(a.s, extraQ)
			c.Count("merge.empty_argument", 1)
		}
		if a.spec.Kind != b.spec.Kind {
			c.Count("merge.cross_kind", 1)
		}
		c.Count("merge."+a.spec.KindName()+"<-"+b.spec.KindName(), 1)
		var err error
		viaDecode := r.P(0.3)
		if viaDecode {
			c.Count("merge.via_decode", 1)
			var buf []byte
			omit := r.Bool()
			c.Guard("Encode", func() { b.s.I().Encode(&buf, omit) })
			c.Logf("merge: %s part <- DecodeAndMergeWith(Encode(%s part), omitMapping=%v) (%d bytes)", a.spec, b.spec, omit, len(buf))
			c.Guard("DecodeAndMergeWith", func() { err = a.s.I().DecodeAndMergeWith(buf) })
		} else {
			c.Logf("merge: %s part (n=%d) <- MergeWith(%s part (n=%d))", a.spec, a.n, b.spec, b.n)
			c.Guard("MergeWith", func() { err = a.s.MergeWith(b.s) })
		}
		if c.Failed() {
			failed = true
			return a
		}
		if err != nil {
			c.Failf("merge.error", "merging sketches with equal mappings returned %v", err)
			failed = true
			return a
		}
		a.n += b.n
		c.Count("oracle.argument_unchanged", 1)
		if d := before.Diff(observeNoSum(b.s, extraQ)); d != "" {
			c.Failf("merge.argument_changed", "the argument of a merge changed: %s", d)
			failed = true
		}
		merged = append(merged, argSnap{b, before})
		if bEmpty {
			if d := recvBefore.Diff(observeNoSum(a.s, extraQ)); d != "" {
				c.Failf("merge.empty_not_noop", "merging an empty sketch changed the receiver: %s", d)
				failed = true
			}
		}
		return a
	}
	root := eval(tree)
	if c.Failed() {
		return
	}
	// the receivers went on absorbing other parts: no earlier argument may have been affected (aliasing)
	if r.Bool() {
		v := vs.vals[r.Intn(len(vs.vals))] // a value of the input: stays within the stores' span budget
		c.Guard("Add", func() { root.s.I().Add(v); single.I().Add(v) })
	}
	for _, a := range merged {
		c.Count("oracle.argument_unchanged_later", 1)
		if d := a.obs.Diff(observeNoSum(a.p.s, extraQ)); d != "" {
			c.Failf("merge.argument_changed_later", "a sketch that had been the argument of a merge (or the source of the copy that received it) changed when the receiver was used further: %s", d)
			return
		}
	}
	c.Count("oracle.merge_equalities", 1)
	want := observeNoSum(single, extraQ)
	got := observeNoSum(root.s, extraQ)
	// the exact sum is accumulated in another order on the two paths (bounded in C10), not compared bitwise
	want.HasSum, got.HasSum = false, false
	if d := want.Diff(got); d != "" {
		c.Failf("merge.differs_from_single", "merged sketch differs from the single sketch fed the whole input (single vs merged): %s", d)
	}
	if d := got.BatchDiff(); d != "" {
		c.Failf("merge.batch", "%s", d)
	}
	if nonEmpty >= 2 && len(nonEmptyKinds) >= 2 && hasZero {
		c.NonTrivial()
		c.Sample(map[string]interface{}{"mapping": m.Desc, "parts": k, "non_empty_parts": nonEmpty, "n": len(vs.vals), "tree_shape": shape, "first_values": trunc(vs.vals, 6)})
	}
}
