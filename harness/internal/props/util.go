// Package props registers one monitor-driven check per property.
package props

import (
	"math"
	"math/big"
	"sort"
	"strconv"

	"github.com/DataDog/sketches-go/ddsketch/store"

	"verif/harness/internal/core"
	"verif/harness/internal/mon"
)

func init() {
	// the order in which observation snapshots ask their queries is drawn per case
	core.OnCaseStart = mon.SetObserveOrder
}

func sortStrings(s []string) { sort.Strings(s) }

// bigSum returns the exactly rounded sum of vals (400-bit accumulation) and the sum of magnitudes.
func bigSum(vals []float64) (float64, float64) {
	acc := new(big.Float).SetPrec(2200)
	abs := 0.0
	for _, v := range vals {
		acc.Add(acc, new(big.Float).SetPrec(2200).SetFloat64(v))
		abs += math.Abs(v)
	}
	f, _ := acc.Float64()
	return f, abs
}

func layoutOf(s store.Store) store.VerifLayout { return store.VerifLayoutOf(s) }

func trimFloat(f float64) string { return strconv.FormatFloat(f, 'g', -1, 64) }
