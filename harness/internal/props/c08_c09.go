package props

import (
	"bytes"
	"math"

	"github.com/DataDog/sketches-go/ddsketch"
	"github.com/DataDog/sketches-go/ddsketch/mapping"
	"github.com/DataDog/sketches-go/ddsketch/pb/sketchpb"
	"github.com/DataDog/sketches-go/ddsketch/store"
	"google.golang.org/protobuf/proto"

	"verif/harness/internal/core"
	"verif/harness/internal/gen"
	"verif/harness/internal/mon"
	"verif/harness/internal/rng"
	"verif/harness/internal/wire"
)

func init() {
	core.Register(&core.Prop{
		ID:    "C08",
		Level: "fault_enumeration",
		Rule: "case = one valid encoding E (either variant, any producer store kind and layout, mapping embedded or omitted) on which faults are injected at the API boundary: EVERY cut E[:c], 0<=c<=|E|; at every block boundary the flag byte replaced by undefined flags (quick: 16 sampled per boundary, thorough: all of them; quadratic/quartic mapping flags count as unsupported); " +
			"a receiver with a different mapping (other kind / accuracy / offset); mapping omitted and none supplied; each decoded by DecodeDDSketch, DecodeDDSketchWithExactSummaryStatistics and DecodeAndMergeWith into rotating store kinds, fresh, non-empty and used-then-cleared receivers. Oracle (block boundaries from the independent parser): cut strictly inside a block -> error, no panic; " +
			"cut at a boundary -> success iff a mapping is available, with exactly the content of the complete blocks; undefined flag / mismatch / missing mapping -> error, no panic. Non-trivial = encoding with >=2 store blocks or >=3 block types; distinct = hash of E.",
		Cases:     core.Scale(40000, 400000),
		Mandatory: []string{"fault.cut_inside_block", "fault.cut_at_boundary", "fault.flag_substitution", "fault.mapping_mismatch", "fault.mapping_mismatch_within_stream", "fault.missing_mapping", "cut.after_flag", "cut.between_primitives", "cut.in_varint", "cut.in_varfloat", "cut.in_float64", "decoder.exact", "decoder.plain", "receiver.nonempty", "receiver.used_then_cleared", "oracle.boundary_content_checks", "source.arbitrary_weights", "cut.in_9_byte_varfloat", "cut.window_on_longer_buffer"},
		Assumptions: []string{
			"block boundaries are those found by the independent parser on the complete encoding",
			"a failed decode is not required to leave the receiver unchanged",
		},
		Run: runC08,
	})
	core.Register(&core.Prop{
		ID:    "C09",
		Level: "exploration",
		Rule: "case = sketch reached by a seeded history incl. cleared-then-refilled stores, negatives with every store kind and arbitrary non-negative float64 weights: ToProto -> proto.Marshal -> Unmarshal -> FromProtoWithStoreProvider(any kind) must give an Equals mapping and bitwise equal zero weight and bin weights (count within 1e-12); EncodeProto bytes must unmarshal to a message proto.Equal to ToProto(); " +
			"sources are also reweighted and may hold bins whose weight underflowed to zero (which carry nothing to rebuild); hand-built messages mixing binCounts and contiguousBinCounts (dyadic weights where they overlap, indexes also at both ends of the int32 range) must add up, and the rebuilt sketch written again by both writers must describe the same bins; half of the sources are converted again later - after the earlier message was scribbled on and a stream whose mapping is Equals but not bit-identical was decoded into them - and both writers must then describe the mapping the sketch holds. Non-trivial = both stores non-empty and >=1 non-integer weight; distinct = hash of the history.",
		Cases:     core.Scale(60000, 1500000),
		Mandatory: []string{"oracle.proto_roundtrips", "oracle.later_message_checks", "oracle.message_read_twice", "oracle.message_after_an_edited_one", "oracle.mixed_extreme_index_checks", "later_message.mapping_replaced_by_equal_one", "oracle.stream_equals_message", "oracle.mixed_message_checks", "weights.arbitrary", "source.cleared_then_refilled", "proto.target.dense", "proto.target.sparse", "proto.target.paginated", "proto.target.collapsing_lowest", "proto.target.collapsing_highest", "proto.via_FromProto", "proto.via_paginated_method", "source.underflowed_bins", "source.reweighted", "mixed.extreme_indexes", "oracle.mixed_second_leg", "source.unread_before_writing", "source.wide_span", "oracle.message_is_a_snapshot"},
		Run:       runC09,
	})
}

// ---------- C08 ----------

// fieldClass classifies a cut position inside a block: right after the flag (payload absent),
// between two primitives, or strictly inside a multi-byte primitive.
func fieldClass(b *wire.Block, pos int) string {
	for i, f := range b.Fields {
		if pos >= f.Start && pos < f.End {
			if pos == f.Start {
				if i == 1 {
					return "cut.after_flag"
				}
				return "cut.between_primitives"
			}
			return "cut.in_" + f.Kind
		}
	}
	return "cut.other"
}

func runC08(c *core.Ctx) {
	r := c.R
	m := gen.RandMap(r, true)
	spec := gen.StoreSpec{Kind: c.Index % 5}
	if spec.Collapsing() {
		spec.N = gen.RandN(r)
	}
	exact := c.Index%2 == 0
	A := buildSource(c, r, "A", exact, m, spec, 40)
	if A == nil {
		return
	}
	// one case in eight carries arbitrary float weights (long varfloat encodings, up to 9 bytes): there the
	// content oracle is switched off (weights are outside the exactness budget), the error/no-panic oracle stays
	arbitrary := c.Index%8 == 5
	if arbitrary {
		for i := 0; i < r.Range(1, 12); i++ {
			v := m.ClampIn(r.LogUniform(0.01, 100))
			if len(A.mdl.Items) > 0 {
				v = A.mdl.Items[r.Intn(len(A.mdl.Items))].V
			}
			w := []float64{0.1, 1.0 / 3, 0.7, 5.6, 1e-3, 123456.789}[r.Intn(6)] * (1 + r.Float())
			A.s.I().AddWithCount(v, w)
		}
		if r.Bool() {
			A.s.I().Reweight(0.3)
		}
		c.Count("source.arbitrary_weights", 1)
	}
	omit := r.P(0.3)
	var e []byte
	if c.Guard("Encode", func() { A.s.I().Encode(&e, omit) }) {
		return
	}
	if len(e) > 4000 {
		// keep the enumeration of cut points affordable: re-encode a smaller sketch
		A = buildSource(c, r, "A", exact, m, spec, 8)
		if A == nil {
			return
		}
		e = e[:0]
		A.s.I().Encode(&e, omit)
	}
	c.SigB(e)
	blocks, perr := wire.Parse(e)
	if perr != nil {
		c.Failf("wire.malformed", "the valid encoding is not parseable by the reference: %v", perr)
		return
	}
	c.Logf("E: %d bytes, blocks %v, exact=%v mapping %s (omitted=%v) producer %s", len(e), blockNames(blocks, 12), exact, m.Desc, omit, spec)
	if c.TraceOn {
		c.Logf("E = % x", truncBytes(e, 400))
	}
	boundary := map[int]int{0: 0} // cut position -> number of complete blocks
	for i := range blocks {
		boundary[blocks[i].End] = i + 1
	}
	blockAt := func(pos int) *wire.Block {
		for i := range blocks {
			if pos >= blocks[i].Start && pos < blocks[i].End {
				return &blocks[i]
			}
		}
		return nil
	}
	targets := []gen.StoreSpec{{Kind: gen.SDense}, {Kind: gen.SSparse}, {Kind: gen.SPaginated}, {Kind: gen.SCLow, N: gen.RandN(r)}, {Kind: gen.SCHigh, N: gen.RandN(r)}}

	// receiver factory: fresh or non-empty, with model of what it already holds
	newReceiver := func(rr *rng.Rng, exactDec bool, target gen.StoreSpec, withMapping bool, nonEmpty bool) (mon.Sketch, *mon.SketchModel) {
		var im mapping.IndexMapping
		if withMapping {
			im = m.M
		}
		s := mon.NewSketch(exactDec, im, target)
		md := mon.NewSketchModel(m, target)
		if withMapping && !nonEmpty && rr.P(0.35) {
			// a receiver that was used (over the index range of the source, so that its arrays, pages and buffers
			// are as large as what arrives) and cleared: empty, with retained memory
			for i, it := range A.mdl.Items {
				if i >= 150 {
					break
				}
				s.I().Add(it.V)
			}
			if rr.Bool() {
				s.I().GetValueAtQuantile(0.5)
			}
			s.I().Clear()
			c.Count("receiver.used_then_cleared", 1)
		}
		if nonEmpty && withMapping {
			for i := 0; i < rr.Range(1, 6); i++ {
				v := A.m.ClampIn(rr.LogUniform(0.5, 2))
				if len(A.mdl.Items) > 0 {
					v = A.mdl.Items[rr.Intn(len(A.mdl.Items))].V
				}
				if s.I().Add(v) == nil {
					md.Add(v, 1)
				}
			}
		}
		return s, md
	}

	// --- every cut point ---
	for cut := 0; cut <= len(e); cut++ {
		target := targets[(cut+c.Index)%5]
		exactDec := exact && cut%3 != 2 // plain decoders also read exact encodings (C07)
		hasMapInPrefix := false
		nComplete, atBoundary := boundary[cut]
		if !atBoundary {
			// number of complete blocks before the cut
			for i := range blocks {
				if blocks[i].End <= cut {
					nComplete = i + 1
				}
			}
		}
		for i := 0; i < nComplete; i++ {
			if blocks[i].Type() == wire.TypeMapping {
				hasMapInPrefix = true
			}
		}
		supply := omit || r.P(0.4)
		nonEmpty := supply && r.P(0.3)
		recv, md := newReceiver(r, exactDec, target, supply, nonEmpty)
		if nonEmpty {
			c.Count("receiver.nonempty", 1)
		}
		if exactDec {
			c.Count("decoder.exact", 1)
		} else {
			c.Count("decoder.plain", 1)
		}
		var err error
		prefix := append([]byte{}, e[:cut]...)
		if (cut+c.Index)%2 == 0 {
			// the truncated input as a window on a longer buffer: the bytes that were cut off follow it in memory
			prefix = append([]byte{}, e...)[:cut]
			c.Count("cut.window_on_longer_buffer", 1)
		}
		if c.Guard("DecodeAndMergeWith(truncated)", func() { err = recv.I().DecodeAndMergeWith(prefix) }) {
			c.Logf("panic while decoding E[:%d] into %s", cut, target)
			return
		}
		if atBoundary {
			c.Count("fault.cut_at_boundary", 1)
			mapAvail := supply || hasMapInPrefix
			// the exact decoder additionally refuses content without statistics (documented)
			prefixModel := modelOfBlocks(blocks[:nComplete], m, target)
			statsCount := 0.0
			for i := 0; i < nComplete; i++ {
				if blocks[i].Type() == wire.TypeFeature && blocks[i].Sub() == wire.SubCount {
					statsCount += blocks[i].Value
				}
			}
			md.Merge(prefixModel)
			missingStats := exactDec && statsCount == 0 && md.Total() > 0 && !(nonEmpty)
			if nonEmpty && exactDec {
				// receiver statistics are non-zero already
				missingStats = false
			}
			switch {
			case !mapAvail:
				if err == nil {
					c.Failf("missing_mapping_accepted", "E[:%d] (complete blocks, no mapping among them, none supplied) decoded without error", cut)
					return
				}
			default:
				if missingStats {
					// bins without any statistics block among the complete blocks: Encode writes the statistics
					// first, so no boundary cut of a valid encoding is in that state; the property still asks for
					// the content of the complete blocks
					c.Count("cut.boundary_with_bins_but_no_statistics", 1)
				}
				if err != nil {
					c.Failf("boundary_cut_rejected", "E[:%d] ends exactly between blocks (%d complete blocks) and a mapping is available, but decoding into %s returned %v", cut, nComplete, target, err)
					return
				}
				if arbitrary {
					break
				}
				c.Count("oracle.boundary_content_checks", 1)
				mon.CheckSketchBinsOnly(c, "prefix_content", recv, md)
				if c.Failed() {
					c.Logf("content after decoding E[:%d] differs from its complete blocks", cut)
					return
				}
			}
		} else {
			c.Count("fault.cut_inside_block", 1)
			if b := blockAt(cut); b != nil {
				for _, f := range b.Fields {
					if f.Kind == "varfloat" && f.End-f.Start == 9 && cut > f.Start && cut < f.End {
						c.Count("cut.in_9_byte_varfloat", 1)
					}
				}
				c.Count(fieldClass(b, cut), 1)
				c.Count("cut.in_block."+b.Name(), 1)
			}
			if err == nil {
				c.Failf("truncation_accepted", "E[:%d] is cut strictly inside block %q (%d..%d) but decoding into %s (exact decoder=%v) reported success", cut, blockAt(cut).Name(), blockAt(cut).Start, blockAt(cut).End, target, exactDec)
				return
			}
		}
	}

	// --- undefined flags at every block boundary ---
	var undefined []byte
	for f := 0; f < 256; f++ {
		if def, sup := wire.DefinedFlag(byte(f)); !def || !sup {
			undefined = append(undefined, byte(f))
		}
	}
	perBoundary := 16
	if c.Tier == "thorough" {
		perBoundary = len(undefined)
	}
	positions := []int{len(e)} // also: an undefined flag appended after the last block
	for i := range blocks {
		positions = append(positions, blocks[i].Start)
	}
	for _, pos := range positions {
		perm := r.Perm(len(undefined))
		for k := 0; k < perBoundary; k++ {
			f := undefined[perm[k]]
			mut := append([]byte{}, e...)
			if pos == len(e) {
				mut = append(mut, f, 0, 0, 0, 0, 0, 0, 0, 0, 0, 0, 0, 0, 0, 0, 0, 0, 0)[:len(e)+1+r.Intn(18)]
			} else {
				mut[pos] = f
			}
			target := targets[(k+pos)%5]
			exactDec := exact && k%2 == 0
			recv, _ := newReceiver(r, exactDec, target, true, r.P(0.2))
			var err error
			if c.Guard("DecodeAndMergeWith(undefined flag)", func() { err = recv.I().DecodeAndMergeWith(mut) }) {
				c.Logf("panic with flag 0x%02x substituted at byte %d", f, pos)
				return
			}
			c.Count("fault.flag_substitution", 1)
			c.Count("fault.flag_substitution.type"+itoa(int(f&3)), 1)
			if err == nil {
				c.Failf("unknown_flag_accepted", "flag byte at %d replaced by the undefined flag 0x%02x (type %d subflag %d): decoding into %s reported success", pos, f, f&3, f>>2, target)
				return
			}
		}
	}

	// --- mapping mismatch / missing mapping ---
	if !omit {
		for i := 0; i < 3; i++ {
			var om *gen.Map
			switch i {
			case 0:
				om, _ = gen.NewMapGamma((m.Kind+1+r.Intn(2))%3, m.Gamma, m.Offset)
			case 1:
				al := m.M.RelativeAccuracy() * (1 + r.LogUniform(0.002, 0.5))
				if al >= 0.99 {
					al = m.M.RelativeAccuracy() / 1.5
				}
				if base, err := gen.NewMap(m.Kind, al); err == nil {
					om, _ = gen.NewMapGamma(m.Kind, base.Gamma, m.Offset)
				}
			default:
				om, _ = gen.NewMapGamma(m.Kind, m.Gamma, m.Offset+[]float64{1, -1, 0.5, 1000}[r.Intn(4)])
			}
			if om == nil || gen.SameParams(om, m) {
				continue
			}
			target := targets[r.Intn(5)]
			recv := mon.NewSketch(exact && r.Bool(), om.M, target)
			var err error
			if c.Guard("DecodeAndMergeWith(mismatch)", func() { err = recv.I().DecodeAndMergeWith(e) }) {
				return
			}
			c.Count("fault.mapping_mismatch", 1)
			if err == nil {
				c.Failf("mapping_mismatch_accepted", "a stream with mapping %s was decoded into a receiver with mapping %s without error", m.Desc, om.Desc)
				return
			}
			// the same mismatch inside one stream: the encodings of two sketches with different mappings one after
			// the other, decoded with no mapping supplied (the first mapping block makes the receiver's mapping)
			{
				ob := mon.NewSketch(false, om.M, gen.RandPlainStore(r))
				var e2 []byte
				c.Guard("Encode", func() { ob.I().Add(om.ClampIn(2)); ob.I().Encode(&e2, false) })
				stream := append(append([]byte{}, e...), e2...)
				if r.Bool() {
					stream = append(append([]byte{}, e2...), e...)
				}
				var derr error
				if c.Guard("DecodeDDSketch(two mappings in one stream)", func() { _, derr = mon.Decode(false, stream, target, nil) }) {
					return
				}
				c.Count("fault.mapping_mismatch_within_stream", 1)
				if derr == nil {
					c.Failf("mapping_mismatch_accepted:within_stream", "a stream holding the mapping blocks %s and %s was decoded (no mapping supplied) without error", m.Desc, om.Desc)
					return
				}
			}
			// static constructor too
			var e2 error
			c.Guard("Decode(mismatch)", func() { _, e2 = mon.Decode(false, e, target, om.M) })
			if e2 == nil {
				c.Failf("mapping_mismatch_accepted", "DecodeDDSketch with a supplied mapping %s accepted a stream holding mapping %s", om.Desc, m.Desc)
				return
			}
		}
	} else {
		var err error
		target := targets[r.Intn(5)]
		c.Guard("Decode(no mapping)", func() { _, err = mon.Decode(exact && r.Bool(), e, target, nil) })
		c.Count("fault.missing_mapping", 1)
		if err == nil {
			c.Failf("missing_mapping_accepted", "a stream without mapping decoded without a supplied mapping and without error")
			return
		}
	}
	types := map[string]bool{}
	sb := 0
	for i := range blocks {
		types[blocks[i].Name()] = true
		if t := blocks[i].Type(); t == wire.TypePositive || t == wire.TypeNegative {
			sb++
		}
	}
	if sb >= 2 || len(types) >= 3 {
		c.NonTrivial()
		c.Sample(map[string]interface{}{"encoding_bytes": len(e), "blocks": blockNames(blocks, 12), "cut_points": len(e) + 1, "flag_substitutions": len(positions) * perBoundary, "exact": exact, "producer": spec.String()})
	}
}

// ---------- C09 ----------

func runC09(c *core.Ctx) {
	r := c.R
	if c.Index%5 == 4 {
		runC09Mixed(c)
		return
	}
	m := gen.RandMap(r, true)
	spec := gen.StoreSpec{Kind: c.Index % 5}
	if spec.Collapsing() {
		spec.N = gen.RandN(r)
	}
	c.SigS(m.Desc)
	c.SigS(spec.String())
	s := mon.NewSketch(false, m.M, spec)
	pattern := []string{"mixed", "mixed+zeros", "neg", "pos", "zeros+neg"}[r.Intn(5)]
	vs := genValues(c, r, m, gen.StoreSpec{Kind: gen.SDense}, r.Range(1, 80), pattern, randSigmaIdx(r, 300))
	nonInteger := false
	add := func(v float64) bool {
		var w float64
		switch r.Pick(4, 2, 3, 1) {
		case 0:
			w = 1
		case 1:
			w = float64(r.Range(2, 100))
		case 2:
			w = r.LogUniform(1e-9, 1e12) // arbitrary non-negative float64
			c.Count("weights.arbitrary", 1)
		default:
			w = r.Float()
			c.Count("weights.arbitrary", 1)
		}
		if w != math.Floor(w) {
			nonInteger = true
		}
		c.SigF(v)
		c.SigF(w)
		var err error
		if c.Guard("AddWithCount", func() { err = s.P.AddWithCount(v, w) }) {
			return false
		}
		if err != nil {
			c.Failf("AddWithCount.rejected", "AddWithCount(%v,%v): %v", v, w, err)
			return false
		}
		return true
	}
	if !spec.Collapsing() && r.P(0.12) {
		// a wide store: one more value 3000-30000 bins away from the rest (still within the dense store's span budget)
		far := vs.ci + r.Range(3000, 30000)*(1-2*r.Intn(2))
		if far > m.IMin+2 && far < m.IMax-2 {
			if v := m.M.Value(far); v > m.Min*4 && v < m.Max/4 {
				if pattern == "neg" || pattern == "zeros+neg" || (pattern != "pos" && r.Bool()) {
					v = -v
				}
				vs.vals = append(vs.vals, v)
				c.Count("source.wide_span", 1)
			}
		}
	}
	if r.P(0.3) {
		// cleared-then-refilled store
		for _, v := range vs.vals[:len(vs.vals)/2+1] {
			if !add(v) {
				return
			}
		}
		s.P.Clear()
		c.Count("source.cleared_then_refilled", 1)
	}
	for _, v := range vs.vals {
		if !add(v) {
			return
		}
	}
	if r.P(0.3) {
		f := []float64{0.1, 0.3, 1.7, 1e-3, 2, 0.5}[r.Intn(6)]
		if c.Guard("Reweight", func() { s.P.Reweight(f) }) {
			return
		}
		c.Count("source.reweighted", 1)
	}
	underflowed := false
	if r.P(0.2) {
		// bins whose weight underflowed to zero (a tiny weight, then a reweighting): they hold nothing, and
		// both protobuf writers must still describe the same message
		c.Guard("underflow", func() {
			s.P.AddWithCount(vs.vals[r.Intn(len(vs.vals))], 1e-300)
			s.P.AddWithCount(m.ClampIn(r.LogUniform(1e-3, 1e3)), 1e-300)
			s.P.AddWithCount(-m.ClampIn(r.LogUniform(1e-3, 1e3)), 1e-300)
			s.P.Reweight(1e-30)
			if r.Bool() {
				s.P.Reweight(1e30)
			}
		})
		if c.Failed() {
			return
		}
		underflowed = true
		nonInteger = true
		c.Count("source.underflowed_bins", 1)
	}
	c.Logf("plain sketch mapping %s store %s, %d values, pattern %s, underflowed bins %v", m.Desc, spec, len(vs.vals), pattern, underflowed)
	// arbitrary weights: totals of the sparse store depend on map iteration order, so the unchanged-source
	// comparison is made on bins and zero weight, bit for bit
	// half of the sources are written without having answered any query since their history (iteration sorts
	// and compacts what the stores hold); the other half is read before and after
	unread := r.Bool()
	var bp0, bn0 []mon.KV
	if !unread {
		bp0, _, _ = mon.ForEachBins(s.P.GetPositiveValueStore())
		bn0, _, _ = mon.ForEachBins(s.P.GetNegativeValueStore())
	} else {
		c.Count("source.unread_before_writing", 1)
	}
	z0 := s.P.GetZeroCount()
	var pb *sketchpb.DDSketch
	var buf bytes.Buffer
	streamFirst := r.Bool() // either writer may be the first call the sketch sees after its history
	if streamFirst {
		c.Count("source.streamed_before_ToProto", 1)
		if c.Guard("EncodeProto", func() { s.P.EncodeProto(&buf) }) {
			return
		}
	}
	if c.Guard("ToProto", func() { pb = s.P.ToProto() }) {
		return
	}
	raw, err := proto.Marshal(pb)
	if err != nil {
		c.Failf("proto.marshal", "%v", err)
		return
	}
	// streaming writer
	if !streamFirst {
		if c.Guard("EncodeProto", func() { s.P.EncodeProto(&buf) }) {
			return
		}
	}
	var streamed sketchpb.DDSketch
	if err := proto.Unmarshal(buf.Bytes(), &streamed); err != nil {
		c.Failf("stream.unmarshal", "the bytes written by EncodeProto do not unmarshal: %v", err)
		return
	}
	c.Count("oracle.stream_equals_message", 1)
	if !proto.Equal(&streamed, pb) {
		c.Failf("stream.differs", "EncodeProto bytes unmarshal to a message different from ToProto(): streamed %v vs message %v", shortPB(&streamed), shortPB(pb))
		return
	}
	srcPos, _, _ := mon.ForEachBins(s.P.GetPositiveValueStore())
	srcNeg, _, _ := mon.ForEachBins(s.P.GetNegativeValueStore())
	if underflowed {
		// a bin of weight zero carries nothing to rebuild
		srcPos, srcNeg, bp0, bn0 = positiveBins(srcPos), positiveBins(srcNeg), positiveBins(bp0), positiveBins(bn0)
	}
	if unread {
		bp0, bn0 = srcPos, srcNeg
	}
	if d := diffBins(bp0, srcPos) + diffBins(bn0, srcNeg); d != "" || math.Float64bits(z0) != math.Float64bits(s.P.GetZeroCount()) {
		c.Failf("proto.changed_source", "ToProto/EncodeProto changed the sketch: %s", d)
		return
	}
	for tk := 0; tk < 5; tk++ {
		target := gen.StoreSpec{Kind: tk}
		if target.Collapsing() {
			target.N = 2048
			if spec.Collapsing() {
				target.N = maxInt(2048, spec.N)
			}
		}
		var back sketchpb.DDSketch
		src := raw
		if r.Bool() {
			src = buf.Bytes()
		}
		if err := proto.Unmarshal(src, &back); err != nil {
			c.Failf("proto.unmarshal", "%v", err)
			return
		}
		var d *ddsketch.DDSketch
		var derr error
		if tk == gen.SPaginated && r.Bool() {
			c.Count("proto.via_paginated_method", 1)
			c.Guard("BufferedPaginatedStore.MergeWithProto", func() {
				ps, ns := store.NewBufferedPaginatedStore(), store.NewBufferedPaginatedStore()
				if back.PositiveValues != nil {
					ps.MergeWithProto(back.PositiveValues)
				}
				if back.NegativeValues != nil {
					ns.MergeWithProto(back.NegativeValues)
				}
				var mp mapping.IndexMapping
				mp, derr = mapping.FromProto(back.Mapping)
				if derr == nil {
					d = ddsketch.NewDDSketch(mp, ps, ns)
					if back.ZeroCount != 0 {
						derr = d.AddWithCount(0, back.ZeroCount)
					}
				}
			})
			if c.Failed() {
				return
			}
		} else if tk == gen.SDense && r.Bool() {
			c.Count("proto.via_FromProto", 1)
			if c.Guard("FromProto", func() { d, derr = ddsketch.FromProto(&back) }) {
				return
			}
		} else if c.Guard("FromProtoWithStoreProvider", func() { d, derr = ddsketch.FromProtoWithStoreProvider(&back, target.Provider()) }) {
			return
		}
		if derr != nil || d == nil {
			c.Failf("proto.fromproto", "FromProtoWithStoreProvider: %v", derr)
			return
		}
		c.Count("oracle.proto_roundtrips", 1)
		c.Count("proto.target."+target.KindName(), 1)
		if !d.IndexMapping.Equals(m.M) || !m.M.Equals(d.IndexMapping) {
			c.Failf("proto.mapping", "mapping rebuilt from the protobuf form is not Equals %s", m.Desc)
			return
		}
		if math.Float64bits(d.GetZeroCount()) != math.Float64bits(s.P.GetZeroCount()) {
			c.Failf("proto.zero", "zero weight %v rebuilt as %v", s.P.GetZeroCount(), d.GetZeroCount())
		}
		gp, _, _ := mon.ForEachBins(d.GetPositiveValueStore())
		gn, _, _ := mon.ForEachBins(d.GetNegativeValueStore())
		wideEnough := !target.Collapsing() || (spanOf(srcPos) <= target.N && spanOf(srcNeg) <= target.N)
		if wideEnough {
			if dd := diffBins(srcPos, gp); dd != "" {
				c.Failf("proto.positive_bins", "positive bins rebuilt into %s differ bit for bit: %s", target, dd)
				return
			}
			if dd := diffBins(srcNeg, gn); dd != "" {
				c.Failf("proto.negative_bins", "negative bins rebuilt into %s differ bit for bit: %s", target, dd)
				return
			}
			if c1, c2 := s.P.GetCount(), d.GetCount(); math.Abs(c1-c2) > 1e-12*math.Abs(c1) {
				c.Failf("proto.count", "count %v rebuilt as %v", c1, c2)
			}
		}
		// the message outlives the sketch rebuilt from it: that sketch goes on (adds into bins it holds, a
		// reweighting, sometimes Clear and reuse), and the same message is then read a second time
		if wideEnough && r.P(0.5) && !c.Failed() {
			c.Guard("rebuilt sketch goes on", func() {
				if r.P(0.2) {
					d.Clear()
				}
				for i := 0; i < 3; i++ {
					d.AddWithCount(vs.vals[r.Intn(len(vs.vals))], float64(r.Range(1, 9)))
				}
				if r.Bool() {
					d.Reweight(3)
				}
			})
			var d2 *ddsketch.DDSketch
			var derr2 error
			if c.Guard("FromProto (same message again)", func() {
				if r.Bool() {
					d2, derr2 = ddsketch.FromProto(&back)
				} else {
					d2, derr2 = ddsketch.FromProtoWithStoreProvider(&back, store.SparseStoreConstructor)
				}
			}) {
				return
			}
			c.Count("oracle.message_read_twice", 1)
			if derr2 != nil || d2 == nil {
				c.Failf("proto.fromproto", "second FromProto of the same message: %v", derr2)
				return
			}
			gp2, _, _ := mon.ForEachBins(d2.GetPositiveValueStore())
			gn2, _, _ := mon.ForEachBins(d2.GetNegativeValueStore())
			if dd := diffBins(srcPos, gp2) + diffBins(srcNeg, gn2); dd != "" {
				c.Failf("proto.message_changed_by_its_consumer", "the message, read again after the sketch first rebuilt from it (into %s) went on, no longer describes the source: %s", target, dd)
				return
			}
		}
	}
	// the message is a value of its own: the sketch goes on absorbing values into bins it already holds, is
	// reweighted (or cleared and refilled), and the message taken before still says what it said
	{
		var snap sketchpb.DDSketch
		if err := proto.Unmarshal(raw, &snap); err != nil {
			c.Failf("proto.unmarshal", "%v", err)
			return
		}
		c.Guard("source goes on", func() {
			if r.P(0.2) {
				s.P.Clear()
			}
			for i := 0; i < 4; i++ {
				s.P.AddWithCount(vs.vals[r.Intn(len(vs.vals))], float64(r.Range(1, 9)))
			}
			if r.Bool() {
				s.P.Reweight(2)
			}
		})
		c.Count("oracle.message_is_a_snapshot", 1)
		if !c.Failed() && !proto.Equal(pb, &snap) {
			c.Failf("proto.message_follows_source", "the message returned by ToProto() changed when the sketch it came from was used further: now %v, at the time %v", shortPB(pb), shortPB(&snap))
			return
		}
	}
	// later messages: the sketch has been converted before (whatever it keeps from that must not outlive a change
	// of what it holds). Decoding a stream whose mapping equals the sketch's within the tolerance of Equals but not
	// bit for bit makes the sketch carry that mapping (IndexMapping is a public field: what it holds can be read);
	// both writers must then describe the mapping the sketch holds now. The earlier message is scribbled on first:
	// messages are values of their own.
	if r.P(0.5) && !c.Failed() {
		var m2 *gen.Map
		for k := 1; k <= 3 && m2 == nil; k++ {
			g2 := m.Gamma * (1 + float64(k*(1-2*r.Intn(2)))*0x1p-43)
			if cand, err := gen.NewMapGamma(m.Kind, g2, m.Offset); err == nil && cand.M.Equals(m.M) && m.M.Equals(cand.M) && g2 != m.Gamma {
				m2 = cand
			}
		}
		if r.P(0.3) {
			m2 = m // same mapping again: nothing changes
		}
		if m2 != nil {
			var pb2 *sketchpb.DDSketch
			var buf2 bytes.Buffer
			var derr error
			if c.Guard("later message", func() {
				t := ddsketch.NewDDSketchFromStoreProvider(m2.M, store.SparseStoreConstructor)
				if r.Bool() {
					t.AddWithCount(vs.vals[r.Intn(len(vs.vals))], 2)
				}
				var enc []byte
				t.Encode(&enc, false)
				derr = s.P.DecodeAndMergeWith(enc)
				if pb.Mapping != nil {
					pb.Mapping.Gamma, pb.Mapping.IndexOffset = 123.25, -7
				}
				if r.Bool() {
					pb2 = s.P.ToProto()
					s.P.EncodeProto(&buf2)
				} else {
					s.P.EncodeProto(&buf2)
					pb2 = s.P.ToProto()
				}
			}) {
				return
			}
			if derr != nil {
				c.Failf("proto.later.decode", "DecodeAndMergeWith of a stream with an equal mapping (%s into %s): %v", m2.Desc, m.Desc, derr)
				return
			}
			c.Count("oracle.later_message_checks", 1)
			if m2 != m {
				c.Count("later_message.mapping_replaced_by_equal_one", 1)
			}
			var streamed2 sketchpb.DDSketch
			if err := proto.Unmarshal(buf2.Bytes(), &streamed2); err != nil {
				c.Failf("stream.unmarshal", "the bytes written by EncodeProto do not unmarshal: %v", err)
				return
			}
			if !proto.Equal(&streamed2, pb2) {
				c.Failf("stream.differs_later", "after an earlier conversion and a decode, EncodeProto bytes unmarshal to a message different from ToProto(): streamed %v vs message %v", shortPB(&streamed2), shortPB(pb2))
				return
			}
			held := s.P.IndexMapping.ToProto()
			if !proto.Equal(pb2.Mapping, held) {
				c.Failf("proto.later.mapping", "the message describes mapping %v, the sketch holds %v", pb2.Mapping, held)
				return
			}
		}
	}
	// store-level helper
	var ds *store.DenseStore
	if c.Guard("store.FromProto", func() { ds = store.FromProto(pb.PositiveValues) }) {
		return
	}
	if gp, _, _ := mon.ForEachBins(ds); diffBins(srcPos, gp) != "" {
		c.Failf("proto.store_fromproto", "store.FromProto differs: %s", diffBins(srcPos, gp))
	}
	// the stores of the earlier message are edited by their receiver (the natural way to build a message by hand):
	// later messages of this sketch, and of a brand-new empty sketch, are not affected
	if r.P(0.5) && !c.Failed() {
		for _, stp := range []*sketchpb.Store{pb.PositiveValues, pb.NegativeValues} {
			if stp != nil {
				stp.BinCounts = map[int32]float64{int32(r.Range(-50, 50)): 3.5}
				stp.ContiguousBinCounts = append(stp.ContiguousBinCounts, 9)
				stp.ContiguousBinIndexOffset += 3
			}
		}
		pb.ZeroCount += 2
		fresh := mon.NewSketch(false, m.M, gen.StoreSpec{Kind: r.Intn(3)})
		for i, subject := range []*ddsketch.DDSketch{s.P, fresh.P} {
			var pb3 *sketchpb.DDSketch
			var buf3 bytes.Buffer
			if c.Guard("message after an edited one", func() {
				pb3 = subject.ToProto()
				subject.EncodeProto(&buf3)
			}) {
				return
			}
			var streamed3 sketchpb.DDSketch
			if err := proto.Unmarshal(buf3.Bytes(), &streamed3); err != nil {
				c.Failf("stream.unmarshal", "the bytes written by EncodeProto do not unmarshal: %v", err)
				return
			}
			c.Count("oracle.message_after_an_edited_one", 1)
			if !proto.Equal(&streamed3, pb3) {
				c.Failf("stream.differs_after_edited_message", "after the stores of an earlier message were edited, ToProto() of %s differs from what EncodeProto writes: message %v vs streamed %v", []string{"the same sketch", "a brand-new empty sketch"}[i], shortPB(pb3), shortPB(&streamed3))
				return
			}
		}
	}
	if len(srcPos) > 0 && len(srcNeg) > 0 && nonInteger {
		c.NonTrivial()
		c.Sample(map[string]interface{}{"mapping": m.Desc, "store": spec.String(), "values": len(vs.vals), "pattern": pattern, "message_bytes": len(raw), "stream_bytes": buf.Len()})
	}
}

func positiveBins(b []mon.KV) []mon.KV {
	out := b[:0:0]
	for _, e := range b {
		if e.W > 0 {
			out = append(out, e)
		}
	}
	return out
}

func maxInt(a, b int) int {
	if a > b {
		return a
	}
	return b
}

func spanOf(b []mon.KV) int {
	if len(b) == 0 {
		return 0
	}
	return b[len(b)-1].K - b[0].K + 1
}

func diffBins(a, b []mon.KV) string {
	if len(a) != len(b) {
		return "different number of bins: " + itoa(len(a)) + " vs " + itoa(len(b))
	}
	for i := range a {
		if a[i].K != b[i].K || math.Float64bits(a[i].W) != math.Float64bits(b[i].W) {
			return "bin " + itoa(a[i].K) + " weight " + trimFloat(a[i].W) + " vs bin " + itoa(b[i].K) + " weight " + trimFloat(b[i].W)
		}
	}
	return ""
}

func shortPB(p *sketchpb.DDSketch) string {
	s := p.String()
	if len(s) > 300 {
		return s[:300] + "..."
	}
	return s
}

// runC09Mixed: hand-built messages giving bins both sparsely and contiguously.
func runC09Mixed(c *core.Ctx) {
	r := c.R
	m := gen.RandMap(r, true)
	centre := r.Range(-2000, 2000)
	extreme := 0
	switch r.Intn(8) {
	case 0:
		// the top of the protobuf form's int32 index range
		centre, extreme = math.MaxInt32-45, 1
		c.Count("mixed.extreme_indexes", 1)
	case 1:
		centre, extreme = math.MinInt32+45, -1
		c.Count("mixed.extreme_indexes", 1)
	}
	clip := func(k int) int {
		if k > math.MaxInt32 {
			return math.MaxInt32
		}
		if k < math.MinInt32 {
			return math.MinInt32
		}
		return k
	}
	mk := func() (*sketchpb.Store, map[int]float64) {
		st := &sketchpb.Store{}
		want := map[int]float64{}
		if r.P(0.8) {
			st.BinCounts = map[int32]float64{}
			if extreme != 0 && r.Bool() {
				st.BinCounts[int32(clip(centre+extreme*100))] = float64(r.Range(1, 9))
			}
			for i := 0; i < r.Range(1, 20); i++ {
				k := clip(centre + r.Range(-40, 40))
				w := math.Ldexp(float64(r.Range(1, 64)), -r.Range(0, 3))
				st.BinCounts[int32(k)] += w
			}
			for k, w := range st.BinCounts {
				want[int(k)] += w
			}
		}
		if r.P(0.8) {
			st.ContiguousBinIndexOffset = int32(clip(centre + r.Range(-30, 30)))
			for i := 0; i < r.Range(1, 40); i++ {
				if int(st.ContiguousBinIndexOffset)+i > math.MaxInt32 {
					break
				}
				w := math.Ldexp(float64(r.Range(0, 64)), -r.Range(0, 3))
				if (i < 2 || r.P(0.1)) && r.P(0.4) {
					w = 0 // zero padding, in particular at the start of the run
				}
				st.ContiguousBinCounts = append(st.ContiguousBinCounts, w)
				if w != 0 {
					want[int(st.ContiguousBinIndexOffset)+i] += w
				}
			}
		}
		if r.P(0.4) && len(st.ContiguousBinCounts) > 0 && int(st.ContiguousBinIndexOffset)+len(st.ContiguousBinCounts)+3 < math.MaxInt32 {
			st.ContiguousBinCounts = append(st.ContiguousBinCounts, make([]float64, r.Range(1, 3))...) // trailing zeros
		}
		return st, want
	}
	pos, wantPos := mk()
	neg, wantNeg := mk()
	msg := &sketchpb.DDSketch{Mapping: m.M.ToProto(), PositiveValues: pos, NegativeValues: neg, ZeroCount: float64(r.Range(0, 5))}
	switch r.Intn(8) {
	case 0:
		msg.NegativeValues = nil
		wantNeg = map[int]float64{}
		c.Count("proto.message_with_absent_store", 1)
	case 1:
		msg.PositiveValues = nil
		wantPos = map[int]float64{}
		c.Count("proto.message_with_absent_store", 1)
	}
	raw, err := proto.Marshal(msg)
	if err != nil {
		c.Failf("proto.marshal", "%v", err)
		return
	}
	c.SigB(raw)
	for tk := 0; tk < 3; tk++ {
		var back sketchpb.DDSketch
		if err := proto.Unmarshal(raw, &back); err != nil {
			c.Failf("proto.unmarshal", "%v", err)
			return
		}
		target := gen.StoreSpec{Kind: tk}
		var d *ddsketch.DDSketch
		var derr error
		if tk == gen.SPaginated && r.Bool() {
			// the paginated store's own MergeWithProto method
			c.Count("proto.via_paginated_method", 1)
			c.Guard("BufferedPaginatedStore.MergeWithProto", func() {
				ps, ns := store.NewBufferedPaginatedStore(), store.NewBufferedPaginatedStore()
				if back.PositiveValues != nil {
					ps.MergeWithProto(back.PositiveValues)
				}
				if back.NegativeValues != nil {
					ns.MergeWithProto(back.NegativeValues)
				}
				var mp mapping.IndexMapping
				mp, derr = mapping.FromProto(back.Mapping)
				if derr == nil {
					d = ddsketch.NewDDSketch(mp, ps, ns)
					if back.ZeroCount != 0 {
						derr = d.AddWithCount(0, back.ZeroCount)
					}
				}
			})
			if c.Failed() {
				return
			}
		} else if tk == gen.SDense && r.Bool() {
			// the convenience entry point (dense stores)
			c.Count("proto.via_FromProto", 1)
			if c.Guard("FromProto", func() { d, derr = ddsketch.FromProto(&back) }) {
				return
			}
		} else if c.Guard("FromProtoWithStoreProvider", func() { d, derr = ddsketch.FromProtoWithStoreProvider(&back, target.Provider()) }) {
			return
		}
		if derr != nil {
			c.Failf("proto.fromproto", "%v", derr)
			return
		}
		c.Count("oracle.mixed_message_checks", 1)
		cmp := func(side string, st store.Store, want map[int]float64) {
			got, _, _ := mon.ForEachBins(st)
			if len(got) != len(want) {
				c.Failf("mixed.bins", "%s: %d bins rebuilt, the message holds %d (into %s)", side, len(got), len(want), target)
				return
			}
			for _, b := range got {
				if want[b.K] != b.W {
					c.Failf("mixed.weight", "%s bin %d: rebuilt %v, sparse+contiguous counts add up to %v (into %s)", side, b.K, b.W, want[b.K], target)
					return
				}
			}
			// the extreme indexes are those of the bins that hold weight: a contiguous run may legally begin or
			// end with zeros (and a sparse entry may be zero), which hold nothing
			if len(want) > 0 {
				lo, hi := math.MaxInt64, math.MinInt64
				for k := range want {
					if k < lo {
						lo = k
					}
					if k > hi {
						hi = k
					}
				}
				gl, e1 := st.MinIndex()
				gh, e2 := st.MaxIndex()
				c.Count("oracle.mixed_extreme_index_checks", 1)
				if e1 != nil || e2 != nil || gl != lo || gh != hi {
					c.Failf("mixed.extreme_indexes", "%s store rebuilt into %s: MinIndex/MaxIndex = %d(%v)/%d(%v), the message's non-empty bins span [%d,%d]", side, target, gl, e1, gh, e2, lo, hi)
				}
			}
		}
		cmp("positive", d.GetPositiveValueStore(), wantPos)
		cmp("negative", d.GetNegativeValueStore(), wantNeg)
		if d.GetZeroCount() != msg.ZeroCount {
			c.Failf("mixed.zero", "zero count %v rebuilt as %v", msg.ZeroCount, d.GetZeroCount())
		}
		if c.Failed() {
			return
		}
		// second leg: the rebuilt sketch written again, by both writers, and read into a sparse store
		var pb2 *sketchpb.DDSketch
		var buf2 bytes.Buffer
		if c.Guard("ToProto/EncodeProto", func() { pb2 = d.ToProto(); d.EncodeProto(&buf2) }) {
			return
		}
		var streamed2 sketchpb.DDSketch
		if err := proto.Unmarshal(buf2.Bytes(), &streamed2); err != nil {
			c.Failf("stream.unmarshal", "the bytes written by EncodeProto do not unmarshal: %v", err)
			return
		}
		c.Count("oracle.stream_equals_message", 1)
		if !proto.Equal(&streamed2, pb2) {
			c.Failf("stream.differs", "EncodeProto bytes unmarshal to a message different from ToProto() (store %s): streamed %v vs message %v", target, shortPB(&streamed2), shortPB(pb2))
			return
		}
		d2, err2 := fromProto(pb2, gen.StoreSpec{Kind: gen.SSparse})
		if err2 != nil {
			c.Failf("proto.fromproto", "second leg: %v", err2)
			return
		}
		target = gen.StoreSpec{Kind: gen.SSparse}
		c.Count("oracle.mixed_second_leg", 1)
		cmp("positive (written again from "+gen.StoreSpec{Kind: tk}.KindName()+")", d2.GetPositiveValueStore(), wantPos)
		cmp("negative (written again from "+gen.StoreSpec{Kind: tk}.KindName()+")", d2.GetNegativeValueStore(), wantNeg)
		if c.Failed() {
			return
		}
	}
	c.NonTrivial()
	c.Sample(map[string]interface{}{"hand_built_message": true, "sparse_bins": len(pos.BinCounts), "contiguous_bins": len(pos.ContiguousBinCounts), "offset": pos.ContiguousBinIndexOffset})
}

var _ = rng.New
