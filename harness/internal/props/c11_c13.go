package props

import (
	"errors"
	"math"

	"github.com/DataDog/sketches-go/ddsketch"
	"github.com/DataDog/sketches-go/ddsketch/mapping"
	"github.com/DataDog/sketches-go/ddsketch/stat"
	"github.com/DataDog/sketches-go/ddsketch/store"

	"verif/harness/internal/core"
	"verif/harness/internal/gen"
	"verif/harness/internal/mon"
)

func init() {
	core.Register(&core.Prop{
		ID:    "C11",
		Level: "exploration",
		Rule: "case = multiset of (value, dyadic weight in (0,2^20]) with total weight W from 2^-10 upward (half of the cases W<1), reached by weighted adds or by reweighting down (a quarter of the cases on an object that held as many other values before and was cleared, a quarter on a copy that absorbs the rest of the items, a fifth receiving the tail of the items as the encoding of another sketch decoded into them after a query), on every store kind (collapsing ones wide enough not to fold) and mapping kind; q grid incl. 0, 1, cumulative-interval boundaries, asked one by one and as one batch (either first); " +
			"oracle: the answer is within (alpha+64u) of some absorbed item whose cumulative-weight interval is within distance 1 of q*(W-1), lies within [GetMinValue, GetMaxValue], is >=0 if nothing negative was absorbed, <=0 if nothing positive, and 0 only if the zero bucket holds weight. " +
			"Non-trivial = W<1 or >=1 non-integer weight; distinct = hash of (mapping, store, items).",
		Cases:     core.Scale(150000, 4000000),
		Mandatory: []string{"oracle.weighted_quantile_checks", "total_weight.lt1", "total_weight.ge1", "reached_by.reweight", "reached_by.weighted_adds", "reached_by.reweight_then_more_adds", "query.on_interval_boundary", "reached_by.reuse_after_clear", "reached_by.continuing_on_a_copy", "reached_by.decode_into_queried_sketch", "oracle.batch_answers_judged"},
		Run:       runC11,
	})
	core.Register(&core.Prop{
		ID:    "C13",
		Level: "exploration",
		Rule: "case = sketch in a reachable state (both variants, any store and mapping kind) receiving refused calls: Add/AddWithCount with NaN, +-Inf, +-MaxFloat64, +-nextafter(MaxIndexable,inf), negative weights (-1, -2^-20), quantiles q in {NaN, -2^-1074, nextafter(1,2), +-Inf, -1, 2} single and batch and on empty sketches (also sketches whose every weight underflowed to zero, count 0: quantile queries refused), MergeWith of a sketch with another kind/alpha/offset (also very coarse mappings, bases 1e3..1e15), Reweight(0), Reweight(-w) on the sketch and on its stores; " +
			"oracle: documented sentinel error (either when two rules apply), full observation identical before/after; valid boundary inputs (+-MaxIndexable, its inner neighbours, -0, weight 0 and -0) accepted; constructors over finite parameters return an error or a usable object, never (nil,nil). " +
			"Non-trivial = non-empty sketch state and >=10 refused calls; distinct = hash of state and calls.",
		Cases:     core.Scale(40000, 1000000),
		Mandatory: []string{"oracle.refused_calls", "oracle.state_unchanged", "oracle.accepted_boundary", "oracle.constructor_checks", "refused.nan_quantile", "refused.zero_weight_invalid_value_exact", "refused.merge_mismatch", "refused.merge_mismatch_empty_argument", "constructor.tiny_accuracy", "state.all_weights_underflowed", "refused.merge_mismatch_coarse_mappings", "refused.store_level_reweight", "oracle.refusal_independent_of_history", "refused.merge_after_accepted_near_twin", "state.mapping_replaced_by_near_twin"},
		Run:       runC13,
	})
}

// ---------- C11 ----------

func runC11(c *core.Ctx) {
	r := c.R
	m := gen.RandMap(r, false)
	spec := gen.StoreSpec{Kind: c.Index % 5}
	if spec.Collapsing() {
		spec.N = 2048
	}
	maxSigma := 300.0
	if spec.Collapsing() {
		maxSigma = 50
	}
	pattern := signPatterns[r.Intn(len(signPatterns))]
	n := r.Range(1, 40)
	if r.P(0.2) {
		n = r.Range(40, 300)
	}
	vs := genValues(c, r, m, gen.StoreSpec{Kind: gen.SDense}, n, pattern, randSigmaIdx(r, maxSigma))
	exact := r.P(0.25)
	s := mon.NewSketch(exact, m.M, spec)
	c.Logf("mapping %s store %s exact=%v pattern %s", m.Desc, spec, exact, pattern)
	c.SigS(m.Desc)
	c.SigS(spec.String())

	small := c.Index%2 == 0 // aim at W < 1
	viaReweight := r.Bool()
	// weights: multiples of 2^-g
	var items []mon.Item
	nonInteger := false
	for _, v := range vs.vals {
		var w float64
		switch {
		case small && !viaReweight:
			// W < 1: n weights each below 1/n
			g := 10 + r.Intn(8)
			lim := math.Ldexp(1, g) / float64(len(vs.vals)+1)
			if lim < 1 {
				g = 30
				lim = math.Ldexp(1, g) / float64(len(vs.vals)+1)
			}
			k := 1 + r.Intn(int(math.Min(lim, 1<<20)))
			w = math.Ldexp(float64(k), -g)
		case r.P(0.4):
			w = 1
		case r.P(0.5):
			w = float64(r.Range(1, 1<<uint(r.Range(1, 20))))
		default:
			w = math.Ldexp(float64(r.Range(1, 4096)), -r.Range(1, 10))
		}
		if w != math.Floor(w) {
			nonInteger = true
		}
		items = append(items, mon.Item{V: v, W: w})
	}
	// when the sketch is reweighted, part of the items may be absorbed after the reweighting
	var late []mon.Item
	if viaReweight && len(items) >= 2 && r.P(0.5) {
		k := r.Range(1, len(items)-1)
		late = append(late, items[k:]...)
		items = items[:k]
		c.Count("reached_by.reweight_then_more_adds", 1)
	}
	// a quarter of the sketches are copies: part of the items is absorbed by the original, the rest (and every
	// query) by its copy, while the original is cleared and goes its own way
	copyAt, copied := -1, false
	if len(items) >= 2 && r.P(0.25) {
		copyAt = r.Range(1, len(items)-1)
	}
	addAll := func(list []mon.Item) bool {
		for i, it := range list {
			if i == copyAt && !copied {
				copied = true
				old := s
				if c.Guard("Copy", func() { s = old.Copy(); old.I().Clear(); old.I().AddWithCount(it.V, 3) }) {
					return false
				}
				c.Logf("the sketch is replaced by its copy after %d weighted additions", i)
				c.Count("reached_by.continuing_on_a_copy", 1)
			}
			c.SigF(it.V)
			c.SigF(it.W)
			var err error
			if c.Guard("AddWithCount", func() { err = s.I().AddWithCount(it.V, it.W) }) {
				return false
			}
			if err != nil {
				c.Failf("AddWithCount.rejected", "AddWithCount(%v,%v) returned %v", it.V, it.W, err)
				return false
			}
		}
		return true
	}
	if r.P(0.25) {
		// an earlier life of the same object: as many values in other bins, queried, then cleared
		shift := []float64{1.5, 0.5, 3, 1.0 / 3, 1.1, 0.9}[r.Intn(6)]
		var err error
		if c.Guard("earlier life", func() {
			for _, it := range items {
				v := it.V * shift
				if a := math.Abs(v); a > m.Max || (a < m.Min*4 && a != 0) {
					v = it.V
				}
				if err = s.I().AddWithCount(v, it.W); err != nil {
					return
				}
			}
			if r.Bool() {
				s.I().GetValueAtQuantile(r.Float())
				s.I().GetMinValue()
			}
			s.I().Clear()
		}) {
			return
		}
		if err != nil {
			c.Failf("AddWithCount.rejected", "earlier life: %v", err)
			return
		}
		c.Logf("earlier life: the same %d weights on values scaled by %v, then Clear", len(items), shift)
		c.Count("reached_by.reuse_after_clear", 1)
	}
	// a fifth of the sketches absorb the tail of their items as the encoding of another sketch, decoded into them
	// after they answered a query (weights that survive the encoding's +1/-1 transform only)
	decAt := -1
	if copyAt < 0 && len(items) >= 2 && r.P(0.2) {
		decAt = r.Range(1, len(items)-1)
		for _, it := range items[decAt:] {
			if (it.W+1)-1 != it.W {
				decAt = -1
				break
			}
		}
	}
	if decAt > 0 {
		tail := items[decAt:]
		if !addAll(items[:decAt]) {
			return
		}
		tspec := gen.StoreSpec{Kind: r.Intn(3)}
		if r.Bool() {
			tspec = spec
		}
		t := mon.NewSketch(exact, m.M, tspec) // same variant: an exact sketch needs the statistics blocks of what it decodes
		var err error
		if c.Guard("decode into a queried sketch", func() {
			for _, it := range tail {
				c.SigF(it.V)
				c.SigF(it.W)
				if err = t.I().AddWithCount(it.V, it.W); err != nil {
					return
				}
			}
			s.I().GetValueAtQuantile(r.Float())
			if r.Bool() {
				s.I().GetMaxValue()
			}
			var b []byte
			t.I().Encode(&b, r.Bool())
			err = s.I().DecodeAndMergeWith(b)
		}) {
			return
		}
		if err != nil {
			c.Failf("DecodeAndMergeWith.error", "decoding the encoding of a %s sketch holding %d items: %v", tspec, len(tail), err)
			return
		}
		c.Logf("the last %d items arrive as the encoding of a %s sketch, decoded after a query", len(tail), tspec)
		c.Count("reached_by.decode_into_queried_sketch", 1)
	} else if !addAll(items) {
		return
	}
	if viaReweight {
		c.Count("reached_by.reweight", 1)
		W := 0.0
		for _, it := range items {
			W += it.W
		}
		// scale so that the total lands below 1 (small) or anywhere
		e := 0
		if small {
			for math.Ldexp(W, -e) >= 1 {
				e++
			}
			e += r.Intn(10)
		} else {
			e = r.Range(-3, 6)
		}
		if e > 40 {
			e = 40
		}
		f := math.Ldexp(1, -e)
		if f != 1 {
			var err error
			if c.Guard("Reweight", func() { err = s.I().Reweight(f) }) {
				return
			}
			if err != nil {
				c.Failf("Reweight.error", "Reweight(%v): %v", f, err)
				return
			}
			for i := range items {
				items[i].W *= f
				if items[i].W != math.Floor(items[i].W) {
					nonInteger = true
				}
			}
		}
		c.Logf("Reweight(%v)", f)
		if len(late) > 0 {
			// late items keep the (already small or scaled) weights they were drawn with, scaled like the rest so
			// that the total stays in the intended range
			for i := range late {
				late[i].W *= f
				if late[i].W != math.Floor(late[i].W) {
					nonInteger = true
				}
			}
			c.Logf("then %d more weighted additions", len(late))
			if !addAll(late) {
				return
			}
			items = append(items, late...)
		}
	} else {
		c.Count("reached_by.weighted_adds", 1)
	}
	if c.TraceOn {
		c.Logf("items (value, weight): %v", truncItems(items, 30))
	}
	// model
	md := mon.NewSketchModel(m, spec)
	for _, it := range items {
		md.Add(it.V, it.W)
	}
	if md.EverFolded() {
		// a bounded store moved weight: C05 territory, the weighted-rank rule does not apply
		c.Count("skipped.folded_by_bounded_store", 1)
		return
	}
	sorted := md.SortedItems()
	W := 0.0
	cum := make([]float64, len(sorted)+1)
	hasNeg, hasPos, hasZero := false, false, false
	for i, it := range sorted {
		W += it.W
		cum[i+1] = W
		switch {
		case it.V < -m.Min:
			hasNeg = true
		case it.V > m.Min:
			hasPos = true
		default:
			hasZero = true
		}
		if math.Abs(it.V) == m.Min {
			// either treatment accepted
			hasZero = true
			if it.V < 0 {
				hasNeg = true
			} else {
				hasPos = true
			}
		}
	}
	if W < 1 {
		c.Count("total_weight.lt1", 1)
	} else {
		c.Count("total_weight.ge1", 1)
	}
	k := s.I()
	if got := k.GetCount(); got != W {
		c.Failf("count", "GetCount()=%v, total weight %v", got, W)
		return
	}
	mn, e1 := k.GetMinValue()
	mx, e2 := k.GetMaxValue()
	if e1 != nil || e2 != nil {
		c.Failf("minmax.error", "GetMin/MaxValue on a non-empty sketch: %v %v", e1, e2)
		return
	}
	if r.P(0.3) {
		// a copy goes its own way (values of both signs, reweighting): the original must keep answering from what it absorbed
		c.Guard("Copy", func() {
			cp := s.Copy()
			// a magnitude the sketch already holds: stays within the stores' span budget on either side
			posMag, negMag := 0.0, 0.0
			for _, it := range sorted {
				if it.V > m.Min {
					posMag = it.V
				} else if it.V < -m.Min && negMag == 0 {
					negMag = -it.V
				}
			}
			if posMag == 0 {
				posMag = negMag // that side is empty: any single index fits
			}
			if negMag == 0 {
				negMag = posMag
			}
			// (the reweighting first in half of the cases: a copy that has not been written to yet)
			first := r.Bool()
			if first {
				cp.I().Reweight([]float64{2, 0.5, 0x1p-12}[r.Intn(3)])
				c.Count("copy_reweighted_before_anything_else", 1)
			}
			if posMag > 0 {
				cp.I().AddWithCount(posMag, 4)
				cp.I().AddWithCount(-negMag, 4)
			}
			cp.I().AddWithCount(0, 2)
			if !first {
				cp.I().Reweight(2)
			}
		})
		c.Count("copy_went_its_own_way", 1)
	}
	// q grid
	qs := []float64{0, 1, 0.5, math.Nextafter(1, 0), math.Nextafter(0, 1)}
	for i := 0; i < 10; i++ {
		qs = append(qs, r.Float())
	}
	if W > 1 {
		for i := 0; i < 12; i++ {
			b := cum[r.Intn(len(cum))]
			for _, q := range []float64{b / (W - 1), (b - 1) / (W - 1), (b + 1) / (W - 1)} {
				if q >= 0 && q <= 1 {
					qs = append(qs, q, math.Nextafter(q, 0), math.Nextafter(q, 1))
					c.Count("query.on_interval_boundary", 1)
				}
			}
		}
	} else {
		c.Count("query.on_interval_boundary", 1) // every rank is clamped to the first boundary
	}
	tol := 1e-9 * math.Max(1, W)
	var vq []float64
	for _, q := range qs {
		if q >= 0 && q <= 1 {
			vq = append(vq, q)
		}
	}
	// the batch query is an entry point of its own: every one of its answers is judged like a single answer.
	// Half of the cases ask it first (before any single query), the others after the single ones.
	var batch, batchPlain []float64
	askBatch := func() bool {
		var err, perr error
		if c.Guard("GetValuesAtQuantiles", func() {
			batch, err = k.GetValuesAtQuantiles(vq)
			if exact {
				batchPlain, perr = s.E.DDSketch.GetValuesAtQuantiles(vq)
			}
		}) {
			return false
		}
		if err != nil || perr != nil || len(batch) != len(vq) || (exact && len(batchPlain) != len(vq)) {
			c.Failf("quantile.error", "GetValuesAtQuantiles(%d valid q) on a non-empty sketch: %d answers, %v %v", len(vq), len(batch), err, perr)
			return false
		}
		return true
	}
	batchFirst := r.Bool()
	if batchFirst && !askBatch() {
		return
	}
	for pass := 0; pass < 2; pass++ {
		if pass == 1 && !batchFirst && !askBatch() {
			return
		}
		for qi, q := range vq {
			var y float64
			var err error
			single := (pass == 0) != batchFirst
			if pass == 1 && batchFirst {
				single = true
			}
			if pass == 0 && batchFirst {
				single = false
			}
			if single {
				if c.Guard("GetValueAtQuantile", func() { y, err = k.GetValueAtQuantile(q) }) {
					return
				}
				if err != nil {
					c.Failf("quantile.error", "GetValueAtQuantile(%v) on a non-empty sketch: %v", q, err)
					return
				}
			} else {
				y = batch[qi]
				c.Count("oracle.batch_answers_judged", 1)
			}
			c.Count("oracle.weighted_quantile_checks", 1)
			rk := q * (W - 1)
			// the exact variant clamps the plain answer to the exact extremes: judge the plain answer by the
			// weighted-rank rule, and the clamped one by equality with clamp(plain, min, max)
			yr := y
			if exact {
				var yp float64
				var perr error
				if single {
					yp, perr = s.E.DDSketch.GetValueAtQuantile(q)
				} else {
					yp = batchPlain[qi]
				}
				if perr != nil {
					c.Failf("quantile.error", "GetValueAtQuantile(%v) on the embedded sketch: %v", q, perr)
					return
				}
				want := yp
				if want < mn {
					want = mn
				}
				if want > mx {
					want = mx
				}
				if y != want {
					c.Failf("exact_clamp", "q=%v: exact variant answered %v, expected clamp(%v, %v, %v)", q, y, yp, mn, mx)
					return
				}
				yr = yp
			}
			ok := false
			for i, it := range sorted {
				a, b := cum[i], cum[i+1]
				if b < rk-1-tol || a > rk+1+tol {
					continue
				}
				if m.Matches(yr, it.V) {
					ok = true
					break
				}
			}
			if !ok {
				c.Failf("weighted_quantile", "q=%v W=%v rank=%v: answer %v is not within alpha of any absorbed value whose cumulative-weight interval is within 1 of the rank (items %v) mapping %s store %s",
					q, W, rk, yr, truncItems(sorted, 12), m.Desc, spec)
				return
			}
			if (!hasNeg && yr < 0) || (!hasPos && yr > 0) || (!hasZero && yr == 0) {
				c.Failf("empty_side", "q=%v W=%v: answer %v comes from a side of the sketch that holds nothing (neg=%v zero=%v pos=%v)", q, W, yr, hasNeg, hasZero, hasPos)
				return
			}
			if y < mn || y > mx {
				c.Failf("outside_minmax", "q=%v: answer %v outside [GetMinValue, GetMaxValue] = [%v, %v]", q, y, mn, mx)
				return
			}
		}
	}
	if W < 1 || nonInteger {
		c.NonTrivial()
		c.Sample(map[string]interface{}{"mapping": m.Desc, "store": spec.String(), "exact": exact, "total_weight": W, "items": truncItems(items, 6), "via_reweight": viaReweight})
	}
}

func truncItems(it []mon.Item, n int) []mon.Item {
	if len(it) > n {
		return it[:n]
	}
	return it
}

// ---------- C13 ----------

func runC13(c *core.Ctx) {
	r := c.R
	if c.Index%8 == 7 {
		runC13Constructors(c)
		return
	}
	m := gen.RandMap(r, true)
	spec := gen.RandAnyStore(r)
	exact := c.Index%2 == 0
	pattern := signPatterns[r.Intn(len(signPatterns))]
	h := newHistGen(c, r, m, spec, pattern, randSigmaIdx(r, 300))
	h.exact = exact
	h.anySpec = true
	n := r.Range(0, 30)
	if r.P(0.15) {
		n = 0
	}
	ops := h.gen(n)
	st := newSkState(c, "x", exact, m, spec)
	c.Logf("sketch exact=%v mapping %s store %s, %d ops before the refused calls", exact, m.Desc, spec, n)
	c.SigS(m.Desc)
	c.SigS(spec.String())
	for _, op := range ops {
		c.SigI(op.kind)
		c.SigF(op.v)
		c.SigF(op.w)
		if !st.apply(op) {
			return
		}
	}
	s := st.s
	k := s.I()
	weightless := false
	if !k.IsEmpty() && r.P(0.12) {
		// every weight underflows to zero: the sketch holds no weight at all (count 0) although its stores still
		// span indexes; quantile queries have nothing to answer from
		if c.Guard("Reweight", func() { k.Reweight(0x1p-1000); k.Reweight(0x1p-1000) }) {
			return
		}
		weightless = k.GetCount() == 0
		c.Logf("Reweight(2^-1000) twice: count %v", k.GetCount())
		if weightless {
			c.Count("state.all_weights_underflowed", 1)
		}
	}
	if r.P(0.25) && !weightless && !(exact && k.GetCount() == 0 && !s.P.IsEmpty()) {
		// the sketch decodes a stream whose mapping equals its own within the tolerance of Equals but not bit for bit:
		// it carries that mapping from now on (IndexMapping is a public field), and the limits that decide which
		// values are refused are those of the mapping it carries
		for kk := 1; kk <= 3; kk++ {
			g2 := m.Gamma * (1 + float64(kk*(1-2*r.Intn(2)))*0x1p-43)
			cand, err := gen.NewMapGamma(m.Kind, g2, m.Offset)
			if err != nil || !cand.M.Equals(m.M) || !m.M.Equals(cand.M) || cand.Gamma == m.Gamma {
				continue
			}
			t := mon.NewSketch(exact, cand.M, gen.RandPlainStore(r))
			var e []byte
			var derr error
			if c.Guard("DecodeAndMergeWith(near twin)", func() { t.I().Encode(&e, false); derr = k.DecodeAndMergeWith(e) }) {
				return
			}
			if derr != nil {
				c.Failf("op.error:DecodeAndMergeWith", "decoding the encoding of an empty sketch with an equal mapping (%s into %s): %v", cand.Desc, m.Desc, derr)
				return
			}
			if s.P.IndexMapping.MaxIndexableValue() == cand.Max && s.P.IndexMapping.MinIndexableValue() == cand.Min {
				m = cand
				c.Count("state.mapping_replaced_by_near_twin", 1)
				c.Logf("the sketch now carries %s", cand.Desc)
			}
			break
		}
	}
	empty := k.IsEmpty() || weightless
	before := mon.Observe(s, nil)
	refused := 0
	// unchanged compares the observation with the one taken before the refused calls
	unchanged := func(what string) {
		c.Count("oracle.state_unchanged", 1)
		if d := before.Diff(mon.Observe(s, nil)); d != "" {
			c.Failf("refused_call_changed_state:"+what, "after the refused call %s the sketch changed: %s", what, d)
		}
	}
	expect := func(what string, err error, allowed ...error) {
		refused++
		c.Count("oracle.refused_calls", 1)
		c.Logf("refused call %s -> %v", what, err)
		if err == nil {
			c.Failf("accepted_invalid:"+what, "%s returned no error", what)
			return
		}
		if len(allowed) > 0 {
			ok := false
			for _, a := range allowed {
				if errors.Is(err, a) {
					ok = true
				}
			}
			if !ok {
				c.Failf("wrong_error:"+what, "%s returned %q, want one of %v", what, err, allowed)
			}
		}
		unchanged(what)
	}
	call := func(what string, f func() error) (err error) {
		c.Guard(what, func() { err = f() })
		return
	}
	maxV := m.Max
	above := math.Nextafter(maxV, math.Inf(1))
	validV := m.ClampIn(1.5)
	type addCase struct {
		name    string
		v, w    float64
		allowed []error
	}
	adds := []addCase{
		{"Add(NaN)", math.NaN(), 1, []error{ddsketch.ErrUntrackableNaN}},
		{"Add(+Inf)", math.Inf(1), 1, []error{ddsketch.ErrUntrackableTooHigh}},
		{"Add(-Inf)", math.Inf(-1), 1, []error{ddsketch.ErrUntrackableTooLow}},
		{"Add(+MaxFloat64)", math.MaxFloat64, 1, []error{ddsketch.ErrUntrackableTooHigh}},
		{"Add(-MaxFloat64)", -math.MaxFloat64, 1, []error{ddsketch.ErrUntrackableTooLow}},
		{"Add(nextafter(+MaxIndexable,+Inf))", above, 1, []error{ddsketch.ErrUntrackableTooHigh}},
		{"Add(nextafter(-MaxIndexable,-Inf))", -above, 1, []error{ddsketch.ErrUntrackableTooLow}},
	}
	for _, a := range adds {
		a := a
		if a.v == math.MaxFloat64 && maxV >= math.MaxFloat64 {
			continue
		}
		expect(a.name, call(a.name, func() error { return k.Add(a.v) }), a.allowed...)
		// weighted forms, including weight 0 (the value is still invalid)
		for _, w := range []float64{1, 2.5, 0x1p-20, 0} {
			w := w
			name := a.name + " as AddWithCount weight " + fmtF(w)
			if w == 0 && exact {
				c.Count("refused.zero_weight_invalid_value_exact", 1)
			}
			expect(name, call(name, func() error { return k.AddWithCount(a.v, w) }), a.allowed...)
		}
		// negative weight and invalid value: either error applies
		name := a.name + " with negative weight"
		expect(name, call(name, func() error { return k.AddWithCount(a.v, -1) }), append([]error{ddsketch.ErrNegativeCount}, a.allowed...)...)
	}
	for _, w := range []float64{-1, -0x1p-20, -math.MaxFloat64, math.Inf(-1), -5e-324} {
		w := w
		for _, v := range []float64{validV, -validV, 0, m.Min / 2} {
			v := v
			name := "AddWithCount(valid, " + fmtF(w) + ")"
			expect(name, call(name, func() error { return k.AddWithCount(v, w) }), ddsketch.ErrNegativeCount)
		}
	}
	// quantiles
	for _, q := range []float64{math.NaN(), -5e-324, math.Nextafter(1, 2), math.Inf(1), math.Inf(-1), -1, 2, -0x1p-60, 1.0000001} {
		q := q
		name := "GetValueAtQuantile(" + fmtF(q) + ")"
		if q != q {
			c.Count("refused.nan_quantile", 1)
		}
		expect(name, call(name, func() error { _, err := k.GetValueAtQuantile(q); return err }))
		name = "GetValuesAtQuantiles([0.5," + fmtF(q) + "])"
		expect(name, call(name, func() error {
			vals, err := k.GetValuesAtQuantiles([]float64{0.5, q})
			if err != nil && vals != nil {
				return nil // an error must come without values
			}
			return err
		}))
	}
	if empty {
		for _, q := range []float64{0, 0.5, 1} {
			q := q
			name := "GetValueAtQuantile(" + fmtF(q) + ") on an empty sketch"
			expect(name, call(name, func() error { _, err := k.GetValueAtQuantile(q); return err }))
			// the batch query is an entry point of its own
			name = "GetValuesAtQuantiles([" + fmtF(q) + ",0.25]) on an empty sketch"
			expect(name, call(name, func() error {
				vals, err := k.GetValuesAtQuantiles([]float64{q, 0.25})
				if err != nil && vals != nil {
					return nil // an error must come without values
				}
				return err
			}))
		}
		if !weightless {
			expect("GetMinValue on an empty sketch", call("GetMinValue", func() error { _, err := k.GetMinValue(); return err }))
			expect("GetMaxValue on an empty sketch", call("GetMaxValue", func() error { _, err := k.GetMaxValue(); return err }))
		}
		c.Count("refused.empty_sketch_queries", 1)
	}
	// reweight
	for _, f := range []float64{0, math.Copysign(0, -1), -1, -0x1p-20, math.Inf(-1)} {
		f := f
		name := "Reweight(" + fmtF(f) + ")"
		expect(name, call(name, func() error { return k.Reweight(f) }))
		// the stores are public objects of their own (GetPositiveValueStore / GetNegativeValueStore) with the same rule
		for side, st := range []store.Store{k.GetPositiveValueStore(), k.GetNegativeValueStore()} {
			st := st
			name := []string{"positive", "negative"}[side] + " store Reweight(" + fmtF(f) + ")"
			c.Count("refused.store_level_reweight", 1)
			expect(name, call(name, func() error { return st.Reweight(f) }))
		}
	}
	// merges with a sketch of another mapping
	for i := 0; i < 3; i++ {
		var om *gen.Map
		switch i {
		case 0:
			om, _ = gen.NewMapGamma((m.Kind+1+r.Intn(2))%3, m.Gamma, m.Offset)
		case 1:
			al := m.M.RelativeAccuracy() * (1 + r.LogUniform(0.002, 0.5))
			if al >= 0.99 {
				al = m.M.RelativeAccuracy() / 1.5
			}
			if base, err := gen.NewMap(m.Kind, al); err == nil {
				om, _ = gen.NewMapGamma(m.Kind, base.Gamma, m.Offset)
			}
		default:
			om, _ = gen.NewMapGamma(m.Kind, m.Gamma, m.Offset+[]float64{1, -1, 0.5, 1000}[r.Intn(4)])
		}
		if om == nil || gen.SameParams(om, m) {
			continue
		}
		other := mon.NewSketch(exact, om.M, gen.RandPlainStore(r))
		switch r.Intn(3) {
		case 0: // a fresh, empty argument: the mappings differ all the same
			c.Count("refused.merge_mismatch_empty_argument", 1)
		case 1: // used then cleared
			other.I().Add(om.ClampIn(2))
			other.I().Clear()
			c.Count("refused.merge_mismatch_empty_argument", 1)
		default:
			other.I().Add(om.ClampIn(2))
			other.I().Add(-om.ClampIn(3))
			other.I().Add(0)
		}
		ob := mon.Observe(other, nil)
		name := "MergeWith(sketch with mapping " + []string{"of another kind", "of another accuracy", "with another offset"}[i] + ")"
		c.Count("refused.merge_mismatch", 1)
		expect(name, call(name, func() error { return s.MergeWith(other) }))
		if d := ob.Diff(mon.Observe(other, nil)); d != "" {
			c.Failf("refused_merge_changed_argument", "the argument of a refused merge changed: %s", d)
		}
	}
	// whether a merge is refused does not depend on what the receiver accepted before: three mappings of one kind
	// whose bases differ by a few 1e-13 (m0 ~ m1 ~ m2 within the tolerance of Equals, m0 and m2 possibly not).
	// A fresh m0 sketch gives the reference verdict for merging an m2 sketch; a m0 sketch that merged an m1 sketch
	// before must give the same one (and stay as it was when it refuses).
	if r.P(0.3) {
		kind := r.Intn(3)
		g0 := m.Gamma
		d1 := r.LogUniform(3e-13, 9.9e-13)
		ma, e0 := gen.NewMapGamma(kind, g0, m.Offset)
		mb, e1 := gen.NewMapGamma(kind, g0*(1+d1), m.Offset)
		mc, e2 := gen.NewMapGamma(kind, g0*(1+d1)*(1+d1), m.Offset)
		if e0 == nil && e1 == nil && e2 == nil && ma.Gamma != mb.Gamma && mb.Gamma != mc.Gamma {
			mk := func(mm *gen.Map, n int) mon.Sketch {
				k := mon.NewSketch(exact, mm.M, gen.RandPlainStore(r))
				for i := 0; i < n; i++ {
					k.I().Add(mm.ClampIn(float64(2 + i)))
				}
				return k
			}
			var refErr, err01, err error
			var a mon.Sketch
			c.Guard("merge chain", func() {
				refErr = mk(ma, 2).MergeWith(mk(mc, 2))
				a = mk(ma, 2)
				err01 = a.MergeWith(mk(mb, 1))
			})
			if err01 == nil && !c.Failed() {
				before := mon.Observe(a, nil)
				c.Guard("merge chain", func() { err = a.MergeWith(mk(mc, 2)) })
				c.Count("oracle.refusal_independent_of_history", 1)
				if refErr != nil {
					c.Count("refused.merge_after_accepted_near_twin", 1)
					refused++
				}
				if (err == nil) != (refErr == nil) {
					c.Failf("refusal_depends_on_history:MergeWith", "a sketch with base %v refuses (%v) a sketch with base %v when fresh, but answers %v after having merged a sketch with base %v", ma.Gamma, refErr, mc.Gamma, err, mb.Gamma)
				} else if err != nil {
					if d := before.Diff(mon.Observe(a, nil)); d != "" {
						c.Failf("refused_call_changed_state:MergeWith(after an accepted near twin)", "the receiver of a refused merge changed: %s", d)
					}
				}
			}
		}
	}
	// very coarse mappings (bases from 1e3 to 1e15, accuracy within 1e-15 of one): still different mappings when
	// their bases differ by a percent or more, and merging them is refused like any other mismatch
	if r.P(0.3) {
		kind := r.Intn(3)
		g1 := r.LogUniform(1e3, 1e15)
		g2 := g1 * r.LogUniform(1.01, 1e3)
		if r.Bool() {
			g1, g2 = g2, g1
		}
		ma, ea := gen.NewMapGamma(kind, g1, 0)
		mb, eb := gen.NewMapGamma(kind, g2, 0)
		if ea == nil && eb == nil {
			a := mon.NewSketch(exact, ma.M, gen.RandPlainStore(r))
			b := mon.NewSketch(exact, mb.M, gen.RandPlainStore(r))
			c.Guard("coarse sketches", func() {
				if r.P(0.7) {
					a.I().Add(ma.ClampIn(2))
				}
				b.I().Add(mb.ClampIn(5))
				b.I().Add(-mb.ClampIn(0.5))
			})
			oa, ob := mon.Observe(a, nil), mon.Observe(b, nil)
			name := "MergeWith(sketch of a very coarse mapping with another base)"
			c.Count("refused.merge_mismatch_coarse_mappings", 1)
			err := call(name, func() error { return a.MergeWith(b) })
			refused++
			c.Count("oracle.refused_calls", 1)
			c.Logf("refused call %s (bases %v and %v) -> %v", name, g1, g2, err)
			if err == nil {
				c.Failf("accepted_invalid:"+name, "%s returned no error (bases %v and %v, kind %d)", name, g1, g2, kind)
			}
			if d := oa.Diff(mon.Observe(a, nil)); d != "" {
				c.Failf("refused_call_changed_state:"+name, "the receiver of a refused merge changed: %s", d)
			}
			if d := ob.Diff(mon.Observe(b, nil)); d != "" {
				c.Failf("refused_merge_changed_argument", "the argument of a refused merge changed: %s", d)
			}
		}
	}
	if c.Failed() {
		return
	}
	// valid boundary inputs are accepted (on a throw-away copy)
	cp := s.Copy()
	ck := cp.I()
	for _, v := range []float64{maxV, -maxV, math.Nextafter(maxV, 0), -math.Nextafter(maxV, 0), math.Copysign(0, -1), 0, m.Min, -m.Min, math.Nextafter(m.Min, 1), 5e-324, validV, -validV} {
		v := v
		for _, w := range []float64{1, 0, math.Copysign(0, -1), 0x1p-30, 3} {
			w := w
			c.Count("oracle.accepted_boundary", 1)
			cnt := ck.GetCount()
			var err error
			if c.Guard("AddWithCount(valid)", func() { err = ck.AddWithCount(v, w) }) {
				return
			}
			if err != nil {
				c.Failf("rejected_valid", "AddWithCount(%v, %v) of a trackable value and non-negative weight returned %v (MaxIndexableValue %v)", v, w, err, maxV)
				return
			}
			// (the weights used here are outside the exactness budget: totals of the sparse store may differ in the last bits between two calls)
			if got := ck.GetCount(); !(got >= cnt*(1-1e-12)) || (w == 0 && math.Abs(got-cnt) > 1e-12*cnt) {
				c.Failf("accepted_but_wrong_count", "AddWithCount(%v,%v): count %v -> %v", v, w, cnt, got)
			}
		}
	}
	if !empty {
		for _, q := range []float64{0, 1, math.Nextafter(0, 1), math.Nextafter(1, 0), math.Copysign(0, -1)} {
			if _, err := k.GetValueAtQuantile(q); err != nil {
				c.Failf("rejected_valid_quantile", "GetValueAtQuantile(%v) on a non-empty sketch returned %v", q, err)
			}
			c.Count("oracle.accepted_boundary", 1)
		}
	}
	if err := cp.I().Reweight(0x1p-40); err != nil {
		c.Failf("rejected_valid_reweight", "Reweight(2^-40) returned %v", err)
	}
	if !empty && refused >= 10 {
		c.NonTrivial()
		c.Sample(map[string]interface{}{"exact": exact, "mapping": m.Desc, "store": spec.String(), "ops_before": n, "refused_calls": refused})
	}
}

func fmtF(f float64) string {
	switch {
	case f != f:
		return "NaN"
	case math.IsInf(f, 1):
		return "+Inf"
	case math.IsInf(f, -1):
		return "-Inf"
	}
	return trimFloat(f)
}

func runC13Constructors(c *core.Ctx) {
	r := c.R
	usable := func(name string, im mapping.IndexMapping) {
		c.Guard(name+".use", func() {
			v := im.Value(im.Index(1.5))
			if !(v > 0) {
				c.Failf("constructor.unusable:"+name, "%s returned a mapping with Value(Index(1.5))=%v", name, v)
			}
			_ = im.RelativeAccuracy()
		})
	}
	type ctor struct {
		name string
		f    func(a float64) (mapping.IndexMapping, error)
	}
	ctors := []ctor{
		{"NewLogarithmicMapping", func(a float64) (mapping.IndexMapping, error) {
			x, err := mapping.NewLogarithmicMapping(a)
			if x == nil {
				return nil, err
			}
			return x, err
		}},
		{"NewLinearlyInterpolatedMapping", func(a float64) (mapping.IndexMapping, error) {
			x, err := mapping.NewLinearlyInterpolatedMapping(a)
			if x == nil {
				return nil, err
			}
			return x, err
		}},
		{"NewCubicallyInterpolatedMapping", func(a float64) (mapping.IndexMapping, error) {
			x, err := mapping.NewCubicallyInterpolatedMapping(a)
			if x == nil {
				return nil, err
			}
			return x, err
		}},
		{"NewDefaultMapping", func(a float64) (mapping.IndexMapping, error) {
			x, err := mapping.NewDefaultMapping(a)
			if err != nil {
				return nil, err
			}
			if lm, ok := x.(*mapping.LogarithmicMapping); ok && lm == nil {
				return nil, nil
			}
			return x, err
		}},
	}
	accs := []float64{0, -0.1, -1, 1, 1.5, 2, math.Inf(1), math.Inf(-1), -5e-324, math.Nextafter(1, 2),
		1e-17, 1e-18, 5e-324, 1e-300, 1e-16, 3e-17,
		1e-6, 0.01, 0.5, 0.99, math.Nextafter(1, 0), r.LogUniform(1e-15, 0.9), r.LogUniform(1e-12, 0.99)}
	for _, ct := range ctors {
		for _, a := range accs {
			var im mapping.IndexMapping
			var err error
			if c.Guard(ct.name, func() { im, err = ct.f(a) }) {
				return
			}
			c.Count("oracle.constructor_checks", 1)
			c.SigF(a)
			outside := !(a > 0 && a < 1)
			if a > 0 && a < 1e-15 {
				c.Count("constructor.tiny_accuracy", 1)
			}
			switch {
			case outside && err == nil:
				c.Failf("constructor.accepts_invalid:"+ct.name, "%s(%v) returned no error for an accuracy outside (0,1)", ct.name, a)
			case err == nil && im == nil:
				c.Failf("constructor.nil_nil:"+ct.name, "%s(%v) returned (nil, nil)", ct.name, a)
			case err == nil:
				usable(ct.name, im)
			}
			if a >= 1e-12 && a <= 0.99 && err != nil {
				c.Failf("constructor.rejects_valid:"+ct.name, "%s(%v) returned %v", ct.name, a, err)
			}
		}
	}
	// sketch constructors built on the mapping constructors
	for _, a := range []float64{0, 1, -1, 1e-17, 0.01} {
		var sk *ddsketch.DDSketch
		var err error
		for name, f := range map[string]func() (*ddsketch.DDSketch, error){
			"NewDefaultDDSketch":                func() (*ddsketch.DDSketch, error) { return ddsketch.NewDefaultDDSketch(a) },
			"LogUnboundedDenseDDSketch":         func() (*ddsketch.DDSketch, error) { return ddsketch.LogUnboundedDenseDDSketch(a) },
			"LogCollapsingLowestDenseDDSketch":  func() (*ddsketch.DDSketch, error) { return ddsketch.LogCollapsingLowestDenseDDSketch(a, 16) },
			"LogCollapsingHighestDenseDDSketch": func() (*ddsketch.DDSketch, error) { return ddsketch.LogCollapsingHighestDenseDDSketch(a, 16) },
		} {
			if c.Guard(name, func() { sk, err = f() }) {
				return
			}
			c.Count("oracle.constructor_checks", 1)
			if !(a > 0 && a < 1) && err == nil {
				c.Failf("constructor.accepts_invalid:"+name, "%s(%v) returned no error", name, a)
			}
			if err == nil {
				if sk == nil {
					c.Failf("constructor.nil_nil:"+name, "%s(%v) returned (nil, nil)", name, a)
				} else {
					c.Guard(name+".use", func() {
						if e := sk.Add(1.5); e != nil {
							c.Failf("constructor.unusable:"+name, "%s(%v): Add(1.5) returned %v", name, a, e)
						}
						if _, e := sk.GetValueAtQuantile(0.5); e != nil {
							c.Failf("constructor.unusable:"+name, "%s(%v): quantile returned %v", name, a, e)
						}
					})
				}
			}
		}
		var ex *ddsketch.DDSketchWithExactSummaryStatistics
		if c.Guard("NewDefaultDDSketchWithExactSummaryStatistics", func() { ex, err = ddsketch.NewDefaultDDSketchWithExactSummaryStatistics(a) }) {
			return
		}
		if err == nil && ex == nil {
			c.Failf("constructor.nil_nil:NewDefaultDDSketchWithExactSummaryStatistics", "(nil,nil) for accuracy %v", a)
		} else if err == nil {
			c.Guard("exact.use", func() { ex.Add(1.5); ex.GetValueAtQuantile(0.5) })
		}
		if !(a > 0 && a < 1) && err == nil {
			c.Failf("constructor.accepts_invalid:NewDefaultDDSketchWithExactSummaryStatistics", "accuracy %v accepted", a)
		}
	}
	// bases
	gammas := []float64{1, 0.5, 0, -1, math.Inf(-1), math.Nextafter(1, 0), math.Nextafter(1, 2), 1.0000001, 1.02, 2, 19, 199, r.LogUniform(1.000001, 100)}
	for kind := 0; kind < 3; kind++ {
		for _, g := range gammas {
			off := []float64{0, 1.5, -1000}[r.Intn(3)]
			var im mapping.IndexMapping
			var err error
			name := []string{"NewLogarithmicMappingWithGamma", "NewLinearlyInterpolatedMappingWithGamma", "NewCubicallyInterpolatedMappingWithGamma"}[kind]
			if c.Guard(name, func() {
				switch kind {
				case 0:
					x, e := mapping.NewLogarithmicMappingWithGamma(g, off)
					err = e
					if x != nil {
						im = x
					}
				case 1:
					x, e := mapping.NewLinearlyInterpolatedMappingWithGamma(g, off)
					err = e
					if x != nil {
						im = x
					}
				default:
					x, e := mapping.NewCubicallyInterpolatedMappingWithGamma(g, off)
					err = e
					if x != nil {
						im = x
					}
				}
			}) {
				return
			}
			c.Count("oracle.constructor_checks", 1)
			c.SigF(g)
			switch {
			case !(g > 1) && err == nil:
				c.Failf("constructor.accepts_invalid:"+name, "%s(%v, %v) returned no error for a base not above one", name, g, off)
			case g > 1 && err != nil:
				c.Failf("constructor.rejects_valid:"+name, "%s(%v, %v) returned %v", name, g, off, err)
			case err == nil && im == nil:
				c.Failf("constructor.nil_nil:"+name, "%s(%v, %v) returned (nil, nil)", name, g, off)
			case err == nil && g >= 1.0000001:
				usable(name, im)
			}
		}
	}
	// summary statistics and bins
	type sd struct {
		count, sum, min, max float64
		valid                bool
	}
	for _, d := range []sd{
		{-1, 0, 0, 0, false}, {-0x1p-30, 1, 1, 1, false}, {1, 1, 2, 1, false}, {0, 0, 0, 0, false}, {0, 0, math.Inf(1), 0, false},
		{0, 0, math.Inf(1), math.Inf(-1), true}, {1, 5, 5, 5, true}, {3.5, 10, -1, 8, true},
	} {
		var st *stat.SummaryStatistics
		var err error
		if c.Guard("NewSummaryStatisticsFromData", func() { st, err = stat.NewSummaryStatisticsFromData(d.count, d.sum, d.min, d.max) }) {
			return
		}
		c.Count("oracle.constructor_checks", 1)
		if d.valid && (err != nil || st == nil) {
			c.Failf("constructor.rejects_valid:NewSummaryStatisticsFromData", "NewSummaryStatisticsFromData(%v,%v,%v,%v) returned %v", d.count, d.sum, d.min, d.max, err)
		}
		if !d.valid && err == nil {
			c.Failf("constructor.accepts_invalid:NewSummaryStatisticsFromData", "NewSummaryStatisticsFromData(%v,%v,%v,%v) returned no error", d.count, d.sum, d.min, d.max)
		}
		if err == nil && st != nil && (st.Count() != d.count || st.Sum() != d.sum || st.Min() != d.min || st.Max() != d.max) {
			c.Failf("constructor.wrong_content:NewSummaryStatisticsFromData", "statistics built from (%v,%v,%v,%v) report (%v,%v,%v,%v)", d.count, d.sum, d.min, d.max, st.Count(), st.Sum(), st.Min(), st.Max())
		}
	}
	for _, w := range []float64{-1, -0x1p-40, math.Inf(-1), 0, 1, 2.5, math.Copysign(0, -1)} {
		idx := r.Range(-1000, 1000)
		var b *store.Bin
		var err error
		if c.Guard("NewBin", func() { b, err = store.NewBin(idx, w) }) {
			return
		}
		c.Count("oracle.constructor_checks", 1)
		if w < 0 && err == nil {
			c.Failf("constructor.accepts_invalid:NewBin", "NewBin(%d,%v) returned no error", idx, w)
		}
		if !(w < 0) && (err != nil || b == nil || b.Index() != idx || b.Count() != w) {
			c.Failf("constructor.rejects_valid:NewBin", "NewBin(%d,%v) returned %v, %v", idx, w, b, err)
		}
	}
	// sketch from data whose emptiness does not match
	{
		sk, _ := ddsketch.NewDefaultDDSketch(0.01)
		sk.Add(1)
		st := stat.NewSummaryStatistics()
		if x, err := ddsketch.NewDDSketchWithExactSummaryStatisticsFromData(sk, st); err == nil || x != nil {
			c.Failf("constructor.accepts_invalid:FromData", "NewDDSketchWithExactSummaryStatisticsFromData accepted a non-empty sketch with empty statistics")
		}
		c.Count("oracle.constructor_checks", 1)
	}
	c.NonTrivial()
	c.Sample(map[string]interface{}{"constructor_sweep": true, "accuracies": len(accs), "bases": len(gammas)})
}
