package props

import (
	"math"
	"math/big"

	"github.com/DataDog/sketches-go/ddsketch/stat"

	"verif/harness/internal/core"
)

// runC10Stats drives stat.SummaryStatistics - the public type behind the exact statistics of C10 - directly:
// histories over Add, AddToCount/AddToSum, MergeWith, Reweight, Rescale, Copy (continue on the copy, poison the
// original), Clear and NewSummaryStatisticsFromData(Count, Sum, Min, Max), against an exact model of the absorbed
// (value, weight) items. After every event: Count exact, Min/Max bitwise (+Inf/-Inf when nothing is held), Sum
// within (16+8L)*2^-53*sum|v*w| (L = events that legitimately round: merge, rebuild from data, rescale, a
// reweighting by something else than a power of two).
func runC10Stats(c *core.Ctx) {
	r := c.R
	type item struct{ v, w float64 }
	type model struct {
		items    []item
		rawCount float64 // AddToCount without items
		rawSum   []float64
		lossy    int
		gran     int     // weights are multiples of 2^-gran
		bound    float64 // upper bound of the total weight
	}
	fresh := func() *model { return &model{gran: 10} }
	s := stat.NewSummaryStatistics()
	md := fresh()
	// one history in twelve holds same-signed values near the top of the float64 range: the sum leaves the range
	// (by additions or by a reweighting) and must from then on be the infinity of that sign
	huge := r.P(0.08)
	hugeSign := float64(1 - 2*r.Intn(2))
	if huge {
		c.Count("stats_level.huge_same_signed", 1)
	}
	drawV := func() float64 {
		if huge {
			return hugeSign * r.LogUniform(1e304, 1.7e308)
		}
		switch r.Pick(4, 3, 2, 1, 1) {
		case 0:
			return float64(r.Range(-50, 50))
		case 1:
			return r.Norm() * math.Pow(10, float64(r.Range(-20, 20)))
		case 2:
			return []float64{0.1, -0.3, 0.7, 1e-17, -1e-17, 0x1p53, -0x1p53, 1, -1, 0}[r.Intn(10)]
		case 3:
			return math.Copysign(r.LogUniform(1e-300, 1e300), float64(1-2*r.Intn(2))) * 1e-8
		default:
			return 0
		}
	}
	drawW := func(m *model) float64 {
		w := math.Ldexp(float64(r.Range(1, 1<<10)), -r.Range(0, 10))
		switch r.Intn(4) {
		case 0:
			w = 1
		case 1:
			w = float64(r.Range(1, 100))
		}
		if m.bound+w > 0x1p28 {
			return 0
		}
		m.bound += w
		return w
	}
	check := func(what string) {
		c.Count("oracle.stats_level_checks", 1)
		count := new(big.Float).SetPrec(200)
		sum := new(big.Float).SetPrec(2400)
		abs := 0.0
		mn, mx := math.Inf(1), math.Inf(-1)
		for _, it := range md.items {
			count.Add(count, new(big.Float).SetFloat64(it.w))
			p := new(big.Float).SetPrec(2400).SetFloat64(it.v)
			p.Mul(p, new(big.Float).SetPrec(2400).SetFloat64(it.w))
			sum.Add(sum, p)
			abs += math.Abs(it.v * it.w)
			if it.v < mn {
				mn = it.v
			}
			if it.v > mx {
				mx = it.v
			}
		}
		count.Add(count, new(big.Float).SetFloat64(md.rawCount))
		for _, a := range md.rawSum {
			sum.Add(sum, new(big.Float).SetPrec(2400).SetFloat64(a))
			abs += math.Abs(a)
		}
		wantCount, _ := count.Float64()
		if got := s.Count(); got != wantCount {
			c.Failf("stats.count", "after %s: Count()=%v, exact %v", what, got, wantCount)
		}
		if got := s.Min(); math.Float64bits(got) != math.Float64bits(mn) && !(got == 0 && mn == 0) {
			c.Failf("stats.min", "after %s: Min()=%v, exact %v (%d items)", what, got, mn, len(md.items))
		}
		if got := s.Max(); math.Float64bits(got) != math.Float64bits(mx) && !(got == 0 && mx == 0) {
			c.Failf("stats.max", "after %s: Max()=%v, exact %v (%d items)", what, got, mx, len(md.items))
		}
		want, _ := sum.Float64()
		bound := (16+8*float64(md.lossy))*0x1p-53*abs + 1e-300
		if huge && len(md.rawSum) == 0 && math.IsInf(want, 0) {
			c.Count("stats_level.overflowed_same_sign_checks", 1)
			if got := s.Sum(); got != want {
				c.Failf("stats.sum.overflow", "after %s: Sum()=%v, the exact sum of %d same-signed items is beyond the float64 range (%v expected)", what, got, len(md.items), want)
			}
		}
		if got := s.Sum(); !(math.Abs(got-want) <= bound) && abs < math.MaxFloat64/1024 {
			c.Failf("stats.sum", "after %s: Sum()=%v, exact %v: |diff| %g > bound %g (%d items, %d lossy events)", what, got, want, math.Abs(got-want), bound, len(md.items), md.lossy)
		}
		if abs > 1e-280 && abs < math.MaxFloat64/1024 {
			c.Max("stats_level_sum_error_in_units_of_2^-53_sum_abs", math.Abs(s.Sum()-want)/(0x1p-53*abs))
		}
	}
	build := func(n int) (*stat.SummaryStatistics, *model) {
		o, om := stat.NewSummaryStatistics(), fresh()
		for i := 0; i < n; i++ {
			v, w := drawV(), drawW(md)
			o.Add(v, w)
			if w > 0 {
				om.items = append(om.items, item{v, w})
			} else if w == 0 {
				// a weightless value still moves the extremes of the statistics object: model it as the library
				// documents Add (min/max of everything passed in)
				om.items = append(om.items, item{v, 0})
			}
		}
		return o, om
	}
	n := r.Range(1, 60)
	adversarial := r.P(0.1)
	if adversarial {
		n = r.Range(200, 2000)
		c.Count("stats_level.adversarial", 1)
	}
	kinds := map[string]bool{}
	for i := 0; i < n && !c.Failed(); i++ {
		what := ""
		op := r.Pick(40, 4, 4, 6, 4, 4, 3, 2, 3)
		if adversarial && op != 0 && r.P(0.9) {
			op = 0
		}
		c.Guard("stats op", func() {
			switch op {
			case 0:
				v, w := drawV(), drawW(md)
				if adversarial {
					v = []float64{0x1p53, 1, 1, 1, -0x1p53, 1e-17, 1}[i%7]
					if i == 0 {
						v = 0x1p60
					}
				}
				c.SigF(v)
				c.SigF(w)
				what = "Add"
				s.Add(v, w)
				md.items = append(md.items, item{v, w})
			case 1:
				a := float64(r.Range(0, 50))
				if md.bound+a > 0x1p28 {
					a = 0
				}
				md.bound += a
				what = "AddToCount"
				s.AddToCount(a)
				md.rawCount += a
			case 2:
				a := drawV()
				if huge {
					a = 0
				}
				what = "AddToSum"
				s.AddToSum(a)
				md.rawSum = append(md.rawSum, a)
			case 3:
				o, om := build(r.Range(0, 12))
				before := [4]float64{o.Count(), o.Sum(), o.Min(), o.Max()}
				what = "MergeWith"
				s.MergeWith(o)
				md.items = append(md.items, om.items...)
				md.lossy++
				if after := [4]float64{o.Count(), o.Sum(), o.Min(), o.Max()}; after != before && !(before[1] != before[1]) {
					c.Failf("stats.merge_changed_argument", "MergeWith changed its argument: %v -> %v", before, after)
				}
				// the argument goes on and is cleared: nothing of it may be shared
				o.Add(1e30, 5)
				o.Clear()
			case 4:
				k := r.Range(-3, 3)
				f := math.Ldexp([]float64{1, 1, 3, 5}[r.Intn(4)], k)
				g := md.gran
				if k < 0 {
					g -= k
				}
				if f != math.Ldexp(1, k) {
					g += 0
				}
				if g > 24 || md.bound*math.Max(f, 1) > 0x1p28 || md.lossy > 40 {
					f, g = 1, md.gran
				}
				what = "Reweight"
				s.Reweight(f)
				for j := range md.items {
					md.items[j].w *= f
				}
				md.rawCount *= f
				for j := range md.rawSum {
					md.rawSum[j] *= f // power of two or small odd factor: may round; counted as lossy below
				}
				md.gran, md.bound = g, md.bound*math.Max(f, 1)
				if fr, _ := math.Frexp(f); fr != 0.5 {
					md.lossy++
				}
			case 5:
				f := []float64{2, 0.5, 10, 0.1, 1000, 1e-3, 3, 1.0 / 3, 1}[r.Intn(9)]
				ok := true
				for _, it := range md.items {
					if a := math.Abs(it.v * f); a > 1e300 || (a < 1e-300 && a != 0) {
						ok = false
					}
				}
				if !ok {
					f = 1
				}
				what = "Rescale"
				s.Rescale(f)
				for j := range md.items {
					md.items[j].v *= f
				}
				for j := range md.rawSum {
					md.rawSum[j] *= f
				}
				if f != 1 {
					md.lossy++
				}
			case 6:
				what = "Copy"
				old := s
				s = old.Copy()
				old.Add(-1e30, 3)
				old.Reweight(2)
				old.Clear()
			case 7:
				what = "Clear"
				s.Clear()
				md = fresh()
			default:
				if md.rawCount != 0 || len(md.rawSum) != 0 {
					what = "Count"
					return
				}
				what = "NewSummaryStatisticsFromData"
				ns, err := stat.NewSummaryStatisticsFromData(s.Count(), s.Sum(), s.Min(), s.Max())
				if err != nil || ns == nil {
					c.Failf("stats.fromdata", "NewSummaryStatisticsFromData(%v,%v,%v,%v) of a consistent object: %v", s.Count(), s.Sum(), s.Min(), s.Max(), err)
					return
				}
				s = ns
				md.lossy++
			}
		})
		kinds[what] = true
		c.Count("stats_level.event."+what, 1)
		if !adversarial || i%50 == 0 || i == n-1 {
			check(what)
		}
	}
	c.SigI(n)
	c.Sig(r.U64())
	if len(kinds) >= 4 {
		c.NonTrivial()
	}
}
