#!/bin/bash
# tools/checks_on_mutant.sh <seeded-id> <ID>... : apply /verif/seeded/<id>/patch.diff to /repo, run the quick checks, undo.
set -u
SID="$1"; shift
P=/verif/seeded/$SID/patch.diff
cd /repo || exit 2
git diff --quiet || { echo "/repo dirty"; exit 2; }
git apply "$P" || exit 2
res=""
for id in "$@"; do
  out=$(/verif/check "$id" quick 2>&1); rc=$?
  cls=$(echo "$out" | grep -E "^  class=" | head -2 | cut -c1-200 | tr '\n' ';')
  echo "$SID $id rc=$rc $cls"
  res="$res $id:$rc"
done
git -C /repo checkout -- .
/verif/check build   # never leave a harness binary built against a changed tree behind
echo "$SID =>$res" >> /verif/seeded/results.txt
