#!/bin/bash
# tools/sweep.sh <tier> <seed>... : run every check at the given seeds, print one line per run ("ok ..." or "!! ...").
# Works from wherever this copy of /verif lives (so it can run in a `vp run` snapshot): builds there, writes
# out/ and evidence/ there (VERIF_ROOT), reads /repo.  ONLY="C04 C05" restricts the checks.
tier="$1"; shift
ROOT="$(cd "$(dirname "$0")/.." && pwd)"
cd "$ROOT" && ./check build || exit 2
export VERIF_ROOT="$ROOT"
for seed in "$@"; do
  for id in ${ONLY:-$(./bin/vh list)}; do
    out=$(VERIF_SEED=$seed ./bin/vh run "$id" "$tier" 2>&1); rc=$?
    line=$(echo "$out" | grep -E "seed=$seed:" | tail -1)
    if [ $rc -ne 0 ]; then echo "!! $id seed=$seed rc=$rc"; echo "$out" | head -12 | cut -c1-300; else echo "ok $line" | cut -c1-120; fi
  done
done
