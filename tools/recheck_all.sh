#!/bin/bash
# tools/recheck_all.sh [pattern] : regression matrix - every kept seeded change against its target check (quick tier),
# one at a time, applied to /repo and undone straight afterwards. Writes /verif/seeded/recheck.txt (id check rc class).
cd /verif || exit 2
PAT="${1:-^C[0-9]+[A-Z]$}"
out=/verif/seeded/recheck.txt; : > $out.tmp
for sid in $(ls seeded | grep -E "$PAT"); do
  [ -f seeded/$sid/patch.diff ] || continue
  id=${sid:0:3}
  line=$(tools/checks_on_mutant.sh $sid $id 2>&1 | tail -1)
  echo "$line" | cut -c1-240 >> $out.tmp
  git -C /repo diff --quiet || { echo "REPO DIRTY after $sid" >> $out.tmp; git -C /repo checkout -- .; }
done
mv $out.tmp $out
grep -c "rc=1" $out; grep -v "rc=1" $out
