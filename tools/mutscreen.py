#!/usr/bin/env python3
"""tools/mutscreen.py <stream> <nstreams> <stage> [options]

Mechanical mutation screening of the monitors (validation of the checks, not a check itself).
For every mutation listed by tools/mutgen (operator flips, constant nudges, deleted statements, negated
conditions in the library's non-test sources) whose ordinal is congruent to <stream> mod <nstreams>:
apply it to a scratch copy of /repo's HEAD under /tmp, rebuild the harness against that copy
(-modfile with the replace directive pointing at the copy, -tags verif), run the checks that concern the
mutated file - reduced case count in stage 1, the full quick tier in stage 2 - and stop at the first
check that reports a VIOLATION.  Nothing is written to /repo; the scratch copy is removed at the end.

Result lines (tab separated) are appended to /verif/mutation/stage<stage>.tsv:
   id  file  line  func  kind  orig->repl  verdict  killer  seconds
verdict: killed (a check exited 1), stillborn (does not compile), survived (all selected checks exit 0),
         inconclusive (some check exited 2 and none exited 1)
Stage 2 reads the survivors of stage 1 (mutation/stage1.tsv) instead of the whole list.
"""
import json, os, shutil, subprocess, sys, time

stream, nstreams, stage = int(sys.argv[1]), int(sys.argv[2]), int(sys.argv[3])
WORKERS = os.environ.get('MUT_WORKERS', '4')
DIV = int(os.environ.get('MUT_DIV', '10'))
LIMIT = int(os.environ.get('MUT_LIMIT', '0'))
VERIF = '/verif'
OUTDIR = VERIF + '/mutation'
os.makedirs(OUTDIR, exist_ok=True)
base = f'/tmp/ms_{stage}_{stream}'
repo = base + '/repo'
root = base + '/root'
env = dict(os.environ, GOFLAGS='-mod=mod', GOPROXY='off', GOSUMDB='off', GOTOOLCHAIN='local',
           VERIF_ROOT=root, VERIF_WORKERS=WORKERS)

QUICK = {'C01': 60000, 'C02': 60000, 'C03': 80000, 'C04': 24000, 'C05': 80000, 'C06': 40000, 'C07': 120000,
         'C08': 40000, 'C09': 60000, 'C10': 30000, 'C11': 150000, 'C12': 60000, 'C13': 40000, 'C14': 10000,
         'C15': 16000, 'C16': 80000, 'C17': 20000, 'C18': 10256, 'C19': 120000, 'C20': 120000}

ORDER = {
    'dataset/': ['C20'],
    'ddsketch/stat/': ['C10', 'C20', 'C16', 'C17', 'C13', 'C06', 'C12'],
    'ddsketch/encoding/': ['C18', 'C07', 'C06', 'C08', 'C10', 'C19', 'C04'],
    'ddsketch/mapping/': ['C03', 'C19', 'C01', 'C13', 'C17', 'C09', 'C06', 'C07', 'C08', 'C12'],
    'ddsketch/store/': ['C04', 'C05', 'C02', 'C06', 'C07', 'C08', 'C09', 'C14', 'C15', 'C16', 'C11', 'C12', 'C01', 'C17', 'C13'],
    'ddsketch/': ['C12', 'C01', 'C02', 'C06', 'C07', 'C08', 'C09', 'C10', 'C11', 'C13', 'C14', 'C15', 'C16', 'C17', 'C05'],
}


def order_for(f):
    for k in ('dataset/', 'ddsketch/stat/', 'ddsketch/encoding/', 'ddsketch/mapping/', 'ddsketch/store/', 'ddsketch/'):
        if f.startswith(k):
            return ORDER[k]
    return sorted(QUICK)


def sh(cmd, **kw):
    return subprocess.run(cmd, shell=True, env=env, capture_output=True, text=True, **kw)


def setup():
    shutil.rmtree(base, ignore_errors=True)
    os.makedirs(root + '/bin')
    os.makedirs(repo)
    sh(f'git -C /repo archive HEAD | tar -x -C {repo}')  # HEAD, not the working tree: seeded changes are applied to /repo now and then
    shutil.copy(VERIF + '/known_findings.txt', root + '/known_findings.txt')
    gm = open(VERIF + '/harness/go.mod').read().replace('=> /repo', '=> ' + repo)
    open(base + '/alt.mod', 'w').write(gm)
    shutil.copy(repo + '/go.sum', base + '/alt.sum')


def build(race=False):
    out = root + '/bin/' + ('vh-race' if race else 'vh')
    r = sh(f'cd {VERIF}/harness && go build -modfile={base}/alt.mod -tags verif {"-race" if race else ""} -o {out} ./cmd/vh')
    return r.returncode == 0, r.stderr


def main():
    subprocess.run(f'cd {VERIF}/tools/mutgen && go build -o {base}_mutgen . ', shell=True, env=env, check=True)
    setup()
    muts = [json.loads(l) for l in subprocess.run([base + '_mutgen', repo], capture_output=True, text=True).stdout.splitlines()]
    allmuts = list(muts)
    outfile = f'{OUTDIR}/stage{stage}.tsv'
    done = set()
    if os.path.exists(outfile):
        done = {l.split('\t')[0] for l in open(outfile)}
    if stage == 2:
        surv = {l.split('\t')[0] for l in open(f'{OUTDIR}/stage1.tsv') if l.split('\t')[6] in ('survived', 'inconclusive')}
        muts = [m for m in muts if m['id'] in surv]
    # deterministic spread: order by a hash so that every stream sees every file/kind early
    import hashlib
    muts.sort(key=lambda m: hashlib.sha1(m['id'].encode()).hexdigest())
    muts = [m for i, m in enumerate(muts) if i % nstreams == stream and m['id'] not in done]
    only = os.environ.get('MUT_ONLY')
    if only:
        want = set(only.split(','))
        muts = [m for m in allmuts if m['id'] in want and m['id'] not in done]
    if LIMIT:
        muts = muts[:LIMIT]
    pristine = {}
    for m in muts:
        t0 = time.time()
        path = repo + '/' + m['file']
        if m['file'] not in pristine:
            pristine[m['file']] = open(path, 'rb').read()
        src = pristine[m['file']]
        assert src[m['start']:m['end']].decode() == m['orig'], m
        open(path, 'wb').write(src[:m['start']] + m['repl'].encode() + src[m['end']:])
        verdict, killer = 'survived', ''
        ok, err = build()
        if not ok:
            verdict = 'stillborn'
        else:
            checks = order_for(m['file'])
            if stage == 2:
                checks = checks + [c for c in sorted(QUICK) if c not in checks]
                if 'C14' in checks:
                    build(race=True)
            for c in checks:
                e = dict(env)
                if stage == 1:
                    e['VERIF_CASES'] = str(max(200, QUICK[c] // DIV))
                try:
                    r = subprocess.run([root + '/bin/vh', 'run', c, 'quick'], env=e, capture_output=True, text=True, timeout=1800)
                    rc = r.returncode
                except subprocess.TimeoutExpired:
                    rc = 2
                if rc == 1:
                    verdict, killer = 'killed', c
                    cls = [l.strip() for l in r.stdout.splitlines() if l.strip().startswith('class=')]
                    if cls:
                        killer += ' ' + cls[0][:120]
                    break
                if rc != 0 and verdict == 'survived':
                    if not (c == 'C14' and 'vh-race' in (r.stderr + r.stdout)):
                        verdict, killer = 'inconclusive', c + ' rc=%d' % rc
            shutil.rmtree(root + '/out', ignore_errors=True)
        open(path, 'wb').write(src)
        line = '\t'.join([m['id'], m['file'], str(m['line']), m['func'], m['kind'],
                          (m['orig'][:40] + ' -> ' + m['repl'][:40]).replace('\n', ' ').replace('\t', ' '),
                          verdict, killer, '%.0f' % (time.time() - t0)])
        with open(outfile, 'a') as f:
            f.write(line + '\n')
    shutil.rmtree(base, ignore_errors=True)
    try:
        os.remove(base + '_mutgen')
    except OSError:
        pass


main()
