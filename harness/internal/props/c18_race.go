package props

import (
	"bytes"
	"encoding/json"
	"fmt"
	"math"
	"os"
	"os/exec"
	"path/filepath"
	"strconv"
	"strings"
	"sync"
	"time"

	enc "github.com/DataDog/sketches-go/ddsketch/encoding"

	"verif/harness/internal/core"
	"verif/harness/internal/rng"
	"verif/harness/internal/wire"
)

// The codec functions are functions of their arguments: goroutines that encode and decode their own values into
// their own buffers have nothing in common. Race18Main (run in the race-instrumented binary) lets several of
// them work at the same time with no synchronisation; every round trip is verified (a value that comes back as
// another goroutine's value is a mismatch) and any DATA RACE report means the package keeps shared mutable state
// between calls (scratch buffers, lazily filled tables).
func Race18Main(seed uint64, iters int) int {
	const G = 8
	var wg sync.WaitGroup
	start := make(chan struct{})
	mism := make([][]string, G)
	ops := make([]int, G)
	for g := 0; g < G; g++ {
		wg.Add(1)
		go func(g int) {
			defer wg.Done()
			r := rng.New(rng.Hash(seed, 0xc18, uint64(g)))
			<-start
			buf := make([]byte, 0, 64)
			for i := 0; i < iters; i++ {
				u := r.U64()
				if r.Bool() {
					u >>= uint(r.Intn(64))
				}
				// every goroutine marks its floats with its own low bits, so a foreign value is recognisable
				f := math.Float64frombits(u&^0xf | uint64(g))
				if f != f {
					f = float64(g)
				}
				buf = buf[:0]
				enc.EncodeFloat64LE(&buf, f)
				enc.EncodeUvarint64(&buf, u)
				enc.EncodeVarint64(&buf, int64(u))
				fv := float64(u >> 12)
				enc.EncodeVarfloat64(&buf, fv)
				enc.EncodeFlag(&buf, enc.NewFlag(enc.FlagTypePositiveStore, enc.BinEncodingIndexDeltas))
				n := enc.Uvarint64Size(u) + enc.Varint64Size(int64(u)) + enc.Varfloat64Size(fv) + 8 + 1
				ref := wire.AppendFloat64LE(nil, f)
				ref = wire.AppendUvarint(ref, u)
				ref = wire.AppendVarint(ref, int64(u))
				ref = wire.AppendVarfloat(ref, fv)
				p := buf
				f2, e1 := enc.DecodeFloat64LE(&p)
				u2, e2 := enc.DecodeUvarint64(&p)
				v2, e3 := enc.DecodeVarint64(&p)
				g2, e4 := enc.DecodeVarfloat64(&p)
				_, e5 := enc.DecodeFlag(&p)
				ops[g] += 10
				if e1 != nil || e2 != nil || e3 != nil || e4 != nil || e5 != nil || len(p) != 0 ||
					math.Float64bits(f2) != math.Float64bits(f) || u2 != u || v2 != int64(u) || g2 != (fv+1)-1 ||
					n != len(buf) || !bytes.Equal(buf[:len(ref)], ref) {
					if len(mism[g]) < 3 {
						mism[g] = append(mism[g], fmt.Sprintf("goroutine %d, iteration %d: encoded (%v, %d, %d, %v) in %d bytes (sizes say %d), decoded (%v, %d, %d, %v) errors %v %v %v %v %v",
							g, i, f, u, int64(u), fv, len(buf), n, f2, u2, v2, g2, e1, e2, e3, e4, e5))
					}
				}
			}
		}(g)
	}
	close(start)
	wg.Wait()
	out := struct {
		Goroutines int      `json:"goroutines"`
		Ops        int      `json:"ops"`
		Mismatches []string `json:"mismatches"`
	}{Goroutines: G}
	for g := 0; g < G; g++ {
		out.Ops += ops[g]
		out.Mismatches = append(out.Mismatches, mism[g]...)
	}
	b, _ := json.Marshal(out)
	fmt.Println(string(b))
	return 0
}

// raceC18 runs the codec race pass from the parent of the C18 check.
func raceC18(p *core.PostCtx) {
	exe, _ := os.Executable()
	bin := filepath.Join(filepath.Dir(exe), "vh-race")
	if _, err := os.Stat(bin); err != nil {
		p.Incon = append(p.Incon, "race-instrumented binary "+bin+" is missing (build it with ./check build)")
		return
	}
	iters := 20000
	if p.Tier == "thorough" {
		iters = 400000
	}
	nproc := 4
	start := time.Now()
	type result struct {
		Goroutines int      `json:"goroutines"`
		Ops        int      `json:"ops"`
		Mismatches []string `json:"mismatches"`
	}
	results := make([]result, nproc)
	var wg sync.WaitGroup
	for k := 0; k < nproc; k++ {
		wg.Add(1)
		go func(k int) {
			defer wg.Done()
			cmd := exec.Command(bin, "race18", strconv.FormatUint(p.Seed+uint64(k)*7919, 10), strconv.Itoa(iters))
			cmd.Env = append(os.Environ(), "GORACE=halt_on_error=0 log_path="+filepath.Join(p.OutDir, fmt.Sprintf("race18_%d", k)))
			var stdout bytes.Buffer
			cmd.Stdout = &stdout
			errf, _ := os.Create(filepath.Join(p.OutDir, fmt.Sprintf("race18_%d.stderr", k)))
			cmd.Stderr = errf
			done := make(chan error, 1)
			if err := cmd.Start(); err != nil {
				p.Incon = append(p.Incon, fmt.Sprintf("codec race pass process %d: %v", k, err))
				return
			}
			go func() { done <- cmd.Wait() }()
			select {
			case err := <-done:
				if err != nil && !strings.Contains(err.Error(), "exit status 66") {
					p.Incon = append(p.Incon, fmt.Sprintf("codec race pass process %d failed: %v (see %s/race18_%d.stderr)", k, err, p.OutDir, k))
				}
			case <-time.After(time.Hour):
				cmd.Process.Kill()
				<-done
				p.Incon = append(p.Incon, fmt.Sprintf("codec race pass process %d: watchdog", k))
			}
			errf.Close()
			line := strings.TrimSpace(stdout.String())
			if i := strings.LastIndex(line, "\n"); i >= 0 {
				line = line[i+1:]
			}
			json.Unmarshal([]byte(line), &results[k])
		}(k)
	}
	wg.Wait()
	ops, gor := 0, 0
	var mism []string
	for _, r := range results {
		ops += r.Ops
		gor += r.Goroutines
		mism = append(mism, r.Mismatches...)
	}
	files, _ := filepath.Glob(filepath.Join(p.OutDir, "race18_*"))
	reports := 0
	first := ""
	firstFile := ""
	for _, f := range files {
		if strings.HasSuffix(f, ".stderr") {
			continue
		}
		b, err := os.ReadFile(f)
		if err != nil {
			continue
		}
		blocks := strings.Split(string(b), "WARNING: DATA RACE")
		reports += len(blocks) - 1
		if len(blocks) > 1 && first == "" {
			first, firstFile = blocks[1], f
			if len(first) > 3000 {
				first = first[:3000]
			}
		}
	}
	p.Counters["race.codec_calls"] += int64(ops)
	p.Counters["race.codec_goroutines"] += int64(gor)
	p.Counters["race.reports"] += int64(reports)
	p.Extra["codec_race_pass"] = map[string]interface{}{
		"goroutines_working_on_their_own_buffers": gor,
		"codec_calls_executed":                    ops,
		"data_race_reports":                       reports,
		"round_trip_mismatches":                   len(mism),
		"wall_s":                                  time.Since(start).Seconds(),
	}
	how := fmt.Sprintf("GORACE='halt_on_error=0' %s race18 %d %d", bin, p.Seed, iters)
	if reports > 0 {
		w := filepath.Join(p.OutDir, "witness_codec_data_race.json")
		b, _ := json.MarshalIndent(map[string]interface{}{"property": "C18", "seed": p.Seed, "tier": p.Tier, "index": -1, "class": "race:shared_codec_state",
			"message": fmt.Sprintf("%d DATA RACE reports between goroutines that encode and decode their own values into their own buffers", reports), "first_report": first, "race_log": firstFile, "how_to_replay": how}, "", " ")
		os.WriteFile(w, b, 0o644)
		p.Viol = append(p.Viol, core.PostViolation{Class: "race:shared_codec_state", Msg: fmt.Sprintf("%d DATA RACE reports between goroutines working on their own buffers (the codec functions keep shared mutable state)", reports), Replay: w})
	}
	if len(mism) > 0 {
		w := filepath.Join(p.OutDir, "witness_codec_race_mismatch.json")
		b, _ := json.MarshalIndent(map[string]interface{}{"property": "C18", "seed": p.Seed, "tier": p.Tier, "index": -1, "class": "race:round_trip_mismatch", "message": mism[0], "all": mism, "how_to_replay": how}, "", " ")
		os.WriteFile(w, b, 0o644)
		p.Viol = append(p.Viol, core.PostViolation{Class: "race:round_trip_mismatch", Msg: mism[0], Replay: w})
	}
}
