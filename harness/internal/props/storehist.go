package props

import (
	"math"

	"github.com/DataDog/sketches-go/ddsketch/pb/sketchpb"

	"verif/harness/internal/core"
	"verif/harness/internal/gen"
	"verif/harness/internal/mon"
	"verif/harness/internal/rng"
	"verif/harness/internal/wire"
)

// idxGen draws store-level indexes around a window centre.
type idxGen struct {
	centre   int
	far      int  // largest offset used for "far" draws
	extremes bool // also draw indexes next to MinInt32 / MaxInt32 (stores without a span limit only)
}

func newIdxGen(r *rng.Rng, far int, allowExtremes bool) *idxGen {
	g := &idxGen{far: far}
	lim := math.MaxInt32 - far - 60000
	switch r.Pick(5, 3, 1, 1) {
	case 0:
		g.centre = r.Range(-2000, 2000)
	case 1:
		g.centre = r.Range(-lim, lim)
	case 2:
		g.centre = lim - r.Intn(1000)
	default:
		g.centre = -lim + r.Intn(1000)
	}
	g.extremes = allowExtremes
	return g
}

// next draws an index; class reports which alignment family it came from.
func (g *idxGen) next(r *rng.Rng) (int, string) {
	if g.extremes && r.P(0.04) {
		// both ends of the int32 range: consecutive encoded bins can then be more than 2^31 apart
		if r.Bool() {
			return math.MaxInt32 - 1 - r.Intn(100), "int32_extreme"
		}
		return math.MinInt32 + 1 + r.Intn(100), "int32_extreme"
	}
	switch r.Pick(6, 4, 3, 3, 2) {
	case 0:
		return g.centre + r.Range(-3, 3), "clustered"
	case 1:
		return g.centre + r.Range(-100, 100), "near"
	case 2: // page aligned (pages of 32 indexes)
		p := (g.centre >> 5) + r.Range(-4, 4)
		return p<<5 + []int{-1, 0, 1, 31, 32}[r.Intn(5)], "page_aligned"
	case 3: // growth aligned (64 / 128)
		k := []int{64, 128}[r.Intn(2)]
		return g.centre + r.Range(-3, 3)*k + r.Range(-1, 1), "growth_aligned"
	default:
		if g.far <= 0 {
			return g.centre, "clustered"
		}
		return g.centre + r.Range(-g.far, g.far), "far"
	}
}

// storeHist is a random walk over the store operation alphabet.
type storeHist struct {
	c        *core.Ctx
	r        *rng.Rng
	ig       *idxGen
	budget   gen.Budget
	pool     []*mon.MonStore
	main     *mon.MonStore
	argSpecs func(r *rng.Rng) gen.StoreSpec
	checked  func(sp gen.StoreSpec) bool // which store kinds this property checks
	opts     mon.CheckOpts
	nameN    int
	opKinds  map[string]bool
	// soak mode: oracles evaluated at checkpoints only
	checkEvery int
	stepN      int
	kept       []*mon.KeptProto // protobuf messages taken earlier and not consumed yet
	// quiet histories: most events are not followed by any query (queries reorganise stores, e.g. sort and
	// compact buffers, and would hide state that only unobserved sequences of events reach)
	quietP float64
}

func (h *storeHist) name() string {
	h.nameN++
	return "s" + itoa(h.nameN)
}

func itoa(n int) string {
	if n == 0 {
		return "0"
	}
	neg := n < 0
	if neg {
		n = -n
	}
	var b [24]byte
	i := len(b)
	for n > 0 {
		i--
		b[i] = byte('0' + n%10)
		n /= 10
	}
	if neg {
		i--
		b[i] = '-'
	}
	return string(b[i:])
}

// inWindow tells whether a store of spec sp may hold index: every bounded-span
// store keeps its content within centre +- SpanBudget/2, so that correct code
// never allocates more than the budget.
func (h *storeHist) inWindow(sp gen.StoreSpec, index int) bool {
	if sp.Collapsing() || sp.Kind == gen.SSparse {
		return true
	}
	d := index - h.ig.centre
	return d <= sp.SpanBudget()/2 && -d <= sp.SpanBudget()/2
}

// fitsAll tells whether a store of spec sp may absorb the whole content of o.
func (h *storeHist) fitsAll(sp gen.StoreSpec, o *mon.MonStore) bool {
	if o.M.Empty() {
		return true
	}
	lo, _ := o.M.Min()
	hi, _ := o.M.Max()
	return h.inWindow(sp, lo) && h.inWindow(sp, hi)
}

func (h *storeHist) drawIndex(s *mon.MonStore) int {
	for try := 0; try < 4; try++ {
		idx, class := h.ig.next(h.r)
		if h.inWindow(s.Spec, idx) {
			h.c.Count("index."+class, 1)
			return idx
		}
	}
	h.c.Count("index.clustered", 1)
	return h.ig.centre + h.r.Range(-3, 3)
}

// smallArg builds an argument store with a short history of its own.
func (h *storeHist) smallArg() *mon.MonStore {
	sp := h.argSpecs(h.r)
	a := mon.NewMonStore(h.c, sp, h.name())
	h.c.Logf("%s := new %s", a.Name, sp)
	n := h.r.Pick(1, 3, 3, 1)
	cnt := []int{0, h.r.Range(1, 6), h.r.Range(6, 40), h.r.Range(64, 140)}[n]
	if h.r.P(0.15) {
		// Wide argument: for collapsing receivers the interesting merges have an argument wider than N.
		lo := h.ig.centre + h.r.Range(-300, 0)
		step := h.r.Range(1, 9)
		for i := 0; i < cnt; i++ {
			idx := lo + i*step
			if !h.inWindow(a.Spec, idx) {
				break
			}
			a.AddWithCount(idx, h.budget.Weight(h.r, 8, 1))
		}
		h.c.Count("arg.wide", 1)
	} else {
		for i := 0; i < cnt; i++ {
			idx := h.drawIndex(a)
			if h.r.P(0.6) {
				h.budget.Charge(1)
				a.Add(idx)
			} else {
				a.AddWithCount(idx, h.budget.Weight(h.r, 8, 1))
			}
		}
	}
	if h.r.P(0.1) {
		a.Clear()
		h.c.Count("arg.cleared", 1)
	}
	h.pool = append(h.pool, a)
	return a
}

func (h *storeHist) check(s *mon.MonStore) {
	if h.checkEvery > 1 && h.stepN%h.checkEvery != 0 {
		return
	}
	if h.quietP > 0 && h.r.P(h.quietP) {
		h.c.Count("quiet.events_without_query", 1)
		return
	}
	if h.checked(s.Spec) {
		o := h.opts
		if sp := s.M.Span(); sp > 20000 {
			o.MaxRanks = 2
			o.Bins = h.r.P(0.3)
		} else if sp > 2000 && o.MaxRanks > 6 {
			o.MaxRanks = 6
		}
		s.Check(o)
	}
}

// step performs one random operation on the main store.
func (h *storeHist) step() {
	h.stepN++
	if len(h.pool) > 40 {
		// soak runs: keep the pool of live stores bounded
		keep := h.pool[len(h.pool)-20:]
		found := false
		for _, p := range keep {
			if p == h.main {
				found = true
			}
		}
		if !found {
			keep = append(keep, h.main)
		}
		h.pool = append([]*mon.MonStore{}, keep...)
	}
	r, s := h.r, h.main
	op := r.Pick(30, 18, 6, 10, 5, 4, 6, 6, 3, 2, 4, 3, 3, 2)
	switch op {
	case 13:
		// a protobuf store message written by hand: sparse entries and a contiguous run that may begin and end with
		// zeros (the library's own ToProto never pads)
		h.opKinds["Proto"] = true
		pb := &sketchpb.Store{}
		want := map[int]float64{}
		if r.P(0.6) {
			pb.BinCounts = map[int32]float64{}
			for i := 0; i < r.Range(1, 6); i++ {
				idx := h.drawIndex(s)
				w := h.budget.Weight(r, 8, 1)
				if r.P(0.1) {
					w = 0
				}
				pb.BinCounts[int32(idx)] += w
			}
			for k, w := range pb.BinCounts {
				if w != 0 {
					want[int(k)] += w
				}
			}
		}
		if r.P(0.8) {
			first := h.drawIndex(s)
			n := r.Range(1, 40)
			for n > 1 && (!h.inWindow(s.Spec, first+n-1) || first+n-1 >= math.MaxInt32) {
				n /= 2
			}
			pb.ContiguousBinIndexOffset = int32(first)
			for i := 0; i < n; i++ {
				w := h.budget.Weight(r, 8, 1)
				if i < 2 && r.Bool() || i >= n-2 && r.Bool() || r.P(0.1) {
					w = 0
				}
				pb.ContiguousBinCounts = append(pb.ContiguousBinCounts, w)
				if w != 0 {
					want[first+i] += w
				}
			}
		}
		s.MergeHandProto(pb, want)
	case 12:
		// a block written by hand from the format documentation (the library's own encoders only ever write
		// ascending indexes and stride 1): signed deltas, negative or zero strides, repeated indexes
		h.opKinds["DecodeBlock"] = true
		if blk := h.handBlock(s); blk != nil {
			s.DecodeBlock(blk)
		}
	case 11:
		// a protobuf message is a value of its own: taken now, consumed some events later (the store it came
		// from has been added to, reweighted, cleared and refilled in between)
		h.opKinds["Proto"] = true
		if len(h.kept) > 0 && (len(h.kept) >= 3 || r.Bool()) {
			k := h.kept[0]
			lo, nonEmpty := k.M.Min()
			hi, _ := k.M.Max()
			if (!nonEmpty || (h.inWindow(s.Spec, lo) && h.inWindow(s.Spec, hi))) && h.budget.Charge(k.M.Total()) {
				h.kept = h.kept[1:]
				if k.Uses < 3 && r.P(0.5) {
					// a message may be consumed more than once (by this store again or by another one): what its
					// first consumer does afterwards must not reach it
					h.kept = append(h.kept, k)
				}
				if r.P(0.3) {
					// into an empty receiver (cleared, or new): nothing to add to, the message's content could be taken over as is
					if r.Bool() || !h.checked(s.Spec) {
						s.Clear()
					} else {
						t := mon.NewMonStore(h.c, s.Spec, h.name())
						h.c.Logf("%s := new %s", t.Name, s.Spec)
						h.pool = append(h.pool, t)
						h.main = t
						s = t
					}
					h.c.Count("proto.kept_message_into_empty_receiver", 1)
				}
				if k.Uses > 0 {
					h.c.Count("proto.kept_message_consumed_again", 1)
				}
				k.Uses++
				s.MergeKeptProto(k)
				h.c.Count("proto.kept_message_consumed_later", 1)
				if nonEmpty && r.P(0.5) {
					// the consumer goes on in place, in bins the message holds
					for i := 0; i < r.Range(1, 3); i++ {
						s.AddWithCount(lo+r.Intn(hi-lo+1), h.budget.Weight(r, 6, 1))
					}
				}
			}
		} else if h.budget.Charge(s.M.Total()) {
			h.kept = append(h.kept, s.ProtoKeep())
		}
	case 0:
		h.opKinds["Add"] = true
		h.budget.Charge(1)
		s.Add(h.drawIndex(s))
	case 1:
		h.opKinds["AddWithCount"] = true
		w := h.budget.Weight(r, 10, 1)
		if r.P(0.05) {
			w = 0
		}
		s.AddWithCount(h.drawIndex(s), w)
	case 2:
		h.opKinds["AddBin"] = true
		w := h.budget.Weight(r, 10, 1)
		if r.P(0.1) {
			w = 0
		}
		s.AddBin(h.drawIndex(s), w)
	case 3:
		h.opKinds["MergeWith"] = true
		var a *mon.MonStore
		if len(h.pool) > 1 && r.P(0.3) {
			a = h.pool[r.Intn(len(h.pool))]
			if a == s {
				a = h.smallArg()
			}
		} else {
			a = h.smallArg()
		}
		if !h.fitsAll(s.Spec, a) || !h.budget.Charge(a.M.Total()) {
			return
		}
		if a.M.Empty() {
			h.c.Count("merge.empty_argument", 1)
		}
		if s.M.Empty() {
			h.c.Count("merge.into_empty_receiver", 1)
			if !a.M.Empty() && s.Spec.Collapsing() && a.M.Span() > s.Spec.N {
				h.c.Count("merge.wide_into_empty_bounded_receiver", 1)
			}
		}
		s.MergeWith(a)
		h.check(a) // the argument must not have changed
	case 4:
		h.opKinds["Copy"] = true
		if !h.budget.Charge(s.M.Total()) {
			return
		}
		cp := s.Copy(h.name())
		h.pool = append(h.pool, cp)
		// continue on the copy, poison the original
		h.main = cp
		for i := 0; i < r.Range(1, 4); i++ {
			h.budget.Charge(1)
			s.Add(h.drawIndex(s))
		}
		if r.P(0.3) {
			s.Clear()
		}
		h.check(s)
	case 5:
		h.opKinds["Clear"] = true
		s.Clear()
		h.c.Count("clear.main", 1)
	case 6:
		h.opKinds["Reweight"] = true
		f := h.budget.Factor(r)
		if f == 0 {
			return
		}
		s.Reweight(f)
	case 7:
		h.opKinds["EncodeDecode"] = true
		if !h.budget.Charge(s.M.Total()) {
			return
		}
		target := h.argSpecs(r)
		if r.P(0.5) {
			target = s.Spec
		}
		if !h.fitsAll(target, s) {
			target = gen.StoreSpec{Kind: gen.SSparse}
		}
		t := s.EncodeDecode(target, h.name())
		h.pool = append(h.pool, t)
		h.check(s)
		if h.checked(t.Spec) && r.P(0.7) {
			h.main = t
		}
	case 8:
		h.opKinds["Proto"] = true
		if !h.budget.Charge(s.M.Total()) {
			return
		}
		target := h.argSpecs(r)
		if !h.fitsAll(target, s) {
			target = gen.StoreSpec{Kind: gen.SSparse}
		}
		t := s.ProtoInto(target, h.name())
		h.pool = append(h.pool, t)
		h.check(s)
		if h.checked(t.Spec) && r.P(0.7) {
			h.main = t
		}
	case 10:
		// decode the encoding of an argument into the main store, which holds content and has just been observed
		h.opKinds["DecodeInto"] = true
		a := h.smallArg()
		if !h.fitsAll(s.Spec, a) || !h.budget.Charge(a.M.Total()) {
			return
		}
		a.EncodeInto(s)
		h.check(a)
	case 9:
		// switch to another checked store of the pool
		cand := h.pool[r.Intn(len(h.pool))]
		if h.checked(cand.Spec) {
			h.main = cand
		}
		return
	}
	h.check(h.main)
}

// handBlock writes a store block in one of the three documented layouts whose bins all lie in the window of s.
func (h *storeHist) handBlock(s *mon.MonStore) *wire.Block {
	r := h.r
	n := []int{0, r.Range(1, 4), r.Range(4, 40), r.Range(40, 90)}[r.Pick(1, 4, 4, 1)]
	switch r.Intn(3) {
	case 0, 1:
		withCounts := r.Bool()
		sub := wire.SubBinsDeltas
		if withCounts {
			sub = wire.SubBinsDeltasCounts
		}
		blk := &wire.Block{Flag: wire.Flag(wire.TypePositive, byte(sub))}
		prev := 0
		mode := r.Intn(3) // any order / descending / ascending with repeats
		cur := h.drawIndex(s)
		for i := 0; i < n; i++ {
			var idx int
			switch mode {
			case 0:
				idx = h.drawIndex(s)
			case 1:
				idx = cur - r.Range(0, 3)
			default:
				idx = cur + r.Range(0, 2)
			}
			if !h.inWindow(s.Spec, idx) || idx <= math.MinInt32 || idx >= math.MaxInt32 {
				idx = cur // stay inside the store's window and inside the int32 index range
			}
			cur = idx
			w := 1.0
			if withCounts {
				w = h.budget.Weight(r, 8, 1)
				if r.P(0.05) {
					w = 0
				}
			} else if !h.budget.Charge(1) {
				break
			}
			blk.Deltas = append(blk.Deltas, int64(idx-prev))
			if withCounts {
				blk.Counts = append(blk.Counts, w)
			}
			prev = idx
		}
		blk.N = uint64(len(blk.Deltas))
		return blk
	default:
		stride := []int{1, -1, 2, -2, 3, -5, 32, -32, 0}[r.Pick(3, 4, 2, 2, 1, 1, 1, 1, 1)]
		first := h.drawIndex(s)
		if stride == 0 && n > 6 {
			n = 6
		}
		for n > 0 && (!h.inWindow(s.Spec, first+(n-1)*stride) || first+(n-1)*stride <= math.MinInt32 || first+(n-1)*stride >= math.MaxInt32) {
			n /= 2
		}
		blk := &wire.Block{Flag: wire.Flag(wire.TypePositive, byte(wire.SubBinsContiguous)), First: int64(first), Stride: int64(stride)}
		for i := 0; i < n; i++ {
			w := h.budget.Weight(r, 8, 1)
			if r.P(0.05) {
				w = 0
			}
			blk.Counts = append(blk.Counts, w)
		}
		blk.N = uint64(len(blk.Counts))
		h.c.Count("decode_block.stride."+map[bool]string{true: "negative", false: "non_negative"}[stride < 0], 1)
		return blk
	}
}

// prefix forces an interesting layout before the random walk.
func (h *storeHist) prefix() {
	r, s := h.r, h.main
	switch r.Pick(5, 2, 2, 2, 1) {
	case 0:
		return
	case 1: // many unit adds in one page -> compaction in the paginated store
		base := (h.ig.centre >> 5) << 5
		n := r.Range(64, 150)
		for i := 0; i < n; i++ {
			h.budget.Charge(1)
			s.Add(base + r.Intn(32))
		}
		h.c.Count("prefix.dense_page", 1)
	case 2: // descending then ascending -> left and right growth
		n := r.Range(20, 200)
		step := r.Range(1, 5)
		for i := 0; i < n; i++ {
			idx := h.ig.centre - i*step
			if !h.inWindow(s.Spec, idx) {
				break
			}
			h.budget.Charge(1)
			s.Add(idx)
		}
		for i := 0; i < n; i++ {
			idx := h.ig.centre + i*step
			if !h.inWindow(s.Spec, idx) {
				break
			}
			s.AddWithCount(idx, h.budget.Weight(r, 6, 1))
		}
		h.c.Count("prefix.descend_ascend", 1)
	case 3: // wide history then clear -> reuse of retained capacity
		n := r.Range(5, 80)
		for i := 0; i < n; i++ {
			idx := h.drawIndex(s)
			if r.Bool() {
				h.budget.Charge(1)
				s.Add(idx)
			} else {
				s.AddWithCount(idx, h.budget.Weight(r, 6, 1))
			}
		}
		s.Clear()
		h.c.Count("prefix.wide_then_clear", 1)
	case 4: // scattered outliers
		for i := 0; i < r.Range(3, 10); i++ {
			h.budget.Charge(1)
			s.Add(h.drawIndex(s))
		}
		h.c.Count("prefix.outliers", 1)
	}
	h.check(s)
}

func runStoreHistory(c *core.Ctx, mainSpec gen.StoreSpec, argSpecs func(r *rng.Rng) gen.StoreSpec, checked func(gen.StoreSpec) bool) *storeHist {
	r := c.R
	far := 5000
	if mainSpec.Kind == gen.SSparse && r.P(0.3) {
		far = 1 << 30
	} else if r.P(0.2) {
		far = 200000
	}
	h := &storeHist{c: c, r: r, ig: newIdxGen(r, far, mainSpec.Kind == gen.SSparse && r.P(0.3)), argSpecs: argSpecs, checked: checked,
		opts: mon.CheckOpts{Bins: true, Ranks: true, MaxRanks: 24}, opKinds: map[string]bool{}}
	h.main = mon.NewMonStore(c, mainSpec, h.name())
	h.pool = append(h.pool, h.main)
	c.Logf("%s := new %s   (index window centre %d, far %d)", h.main.Name, mainSpec, h.ig.centre, far)
	c.SigS(mainSpec.String())
	c.SigI(h.ig.centre)
	switch r.Pick(5, 3, 2) {
	case 1:
		h.quietP = 0.7
		c.Count("quiet.histories", 1)
	case 2:
		h.quietP = 0.95
		c.Count("quiet.histories", 1)
	}
	h.prefix()
	n := r.Range(1, 60)
	if r.P(0.05) {
		n = r.Range(100, 400)
		h.opts.MaxRanks = 6
	}
	if c.Tier == "thorough" && (c.Index%2000 == 6 || c.Index%2000 == 7) {
		// soak: a long history with the oracles evaluated at checkpoints and at the end
		n = r.Range(20000, 100000)
		h.checkEvery = 499
		h.opts.MaxRanks = 6
		c.Count("soak.histories", 1)
		c.Count("soak.operations", n)
	}
	for i := 0; i < n && !c.Failed(); i++ {
		h.step()
	}
	if (h.checkEvery > 1 || h.quietP > 0) && !c.Failed() {
		h.checkEvery = 1
		h.quietP = 0
		for _, p := range h.pool {
			h.check(p)
		}
	}
	c.SigI(n)
	c.Sig(r.U64())
	return h
}
